#!/usr/bin/env python3
"""Regenerates /verif/MANIFEST.json from the table below (kept in one place so that the
claimed set, the not_applicable list and the commands cannot drift apart)."""
import json, os, subprocess

ROOT = os.path.dirname(os.path.dirname(os.path.abspath(__file__)))
props = [json.loads(l) for l in open(os.path.join(ROOT, "properties.jsonl"))]

MC = "bounded-exhaustive explicit-state exploration of the real implementation (stateless DFS over forkable worlds of real mls-rs members, oracle on every transition)"
GRID = "bounded-exhaustive enumeration of an input grid against an independent reference implementation"

# id -> (category, technique, text, note, design_ref)
CHECKS = {
    "C01": ("model_checking", MC,
            "Every sequence of group operations up to the depth bound from the initial group and 11 scripted tree-gallery seeds is executed on real Group objects; after every accepted commit all members are compared through an epoch ledger (context, roster, exported tree, epoch authenticator, exports) and every ordered pair decrypts on forks. A coverage statement over all histories within the bound, which a scripted test cannot give.",
            "Trusted: rustc/std, the explorer, sha2; crypto providers as black boxes. Bounded to <=5 identities, depth 3 (quick) / 4 (thorough) from the initial group and 2 / 3 from 11 seeds; deviation bound K = 1 (quick) / 2 (thorough) over two kinds of deviating round (a raced commit that loses, the committer's own commit echoed back).", "DESIGN.md 2/C01"),
    "C02": ("model_checking", MC,
            "On the same exhaustive traversal, every HPKE encryption made while a commit is built is checked against the copath resolutions of the new tree as computed by an independent tree parser, and every later message is offered to every retained ex-member state and outsider.",
            "Trusted: explorer, reference tree parser (RFC 9420 4.1.1), recording provider wrapper. Same bounds as C01.", "DESIGN.md 2/C02"),
    "C03": ("model_checking", "exhaustive mutation enumeration over a corpus of real messages with their pre-delivery worlds: all bit flips, all truncations, all field splices, cross-epoch / cross-group / post-state replays, insider re-signed forgeries, adversarial-committer structural mutations; every mutant delivered to every legitimate receiver of the real implementation",
            "For every message kind of a scripted world and every legitimate receiver: every single-bit flip, truncation, field splice with a same-epoch partner, replay into other epochs / another group / the post-state is rejected without panic (genuine deliveries are accepted and truthfully reported); insider forgeries are rejected: public proposals re-attributed and re-signed with the forger's key under a valid membership tag, and private application messages built from scratch under every other member's ratchet (right key, nonce, sender data, AAD) but signed with the forger's key; authentic private messages with a non-zero padding byte are rejected; structurally invalid commits from an adversarial committer whose library computes everything downstream consistently never panic and wrong path lengths are rejected by everybody.",
            "Trusted: explorer, reference framing parser, hooks verif_epoch_keys (H6) and encap::Mutation (H7). One scripted world per configuration (2 quick, 12 thorough).", "DESIGN.md 2/C03"),
    "C04": ("model_checking", MC + "; in every state a menu of must-be-rejected messages is enumerated per member (fault/mutation enumeration on forks)",
            "In every state of a history traversal and for every member, every region of every deliverable genuine message is mutated once per kind (bit flips, truncations), plus semantically unacceptable authentic messages and failing builds; each on a fork: the complete canonical state (hook H1) must be identical after the error, the genuine message must then lead to the twin's state, and the next send must be accepted.",
            "Trusted: explorer, hook verif_state normal forms (DESIGN 1.4a), reference framing parser. Depth one less than C01. Known findings F-C04-1/2 (ratchet key consumed by rejected private messages) are listed in known-findings.json.", "DESIGN.md 2/C04"),
    "C05": ("model_checking", MC + "; AEAD (key, nonce) pairs and random draws observed through a recording crypto-provider wrapper",
            "Every interleaving (to the depth bound) of application sends by two senders, encrypted proposals, deliveries in any order and write+reload of either side: no (key, nonce) is ever used twice, application and handshake keys are disjoint, the reuse guard is freshly drawn and applied, every first delivery succeeds, every re-delivery (also after reload) is refused; plus the 1024-generation window boundary in both directions.",
            "Trusted: explorer, recording provider wrapper; the receiver-side ratchet value comes from the library's own secret_tree_access API. 3 members, depth 8 (quick) / 10 (thorough).", "DESIGN.md 2/C05"),
    "C06": ("fault_enumeration", "exhaustive enumeration of (history, write positions, crash/reload point, retention, store) cases, each executed from scratch on the real implementation over a tee of the shipped in-memory store, the shipped SQLite store and a reference store model",
            "Every history of the target member up to the depth bound x every set of write positions x every reload point x retention x shipped store: load-after-write equals the saved member (complete state), a crash after any unwritten tail loads exactly the last written state, a reloaded copy stays in lockstep with the never-reloaded member, and all reads agree between in-memory store, SQLite store and model; a second, untouched group of the same member in the same storage keeps its records as written.",
            "Trusted: explorer, hook verif_state, reference store model. Crash points lie between storage trait calls; SQLite on an in-memory connection.", "DESIGN.md 2/C06"),
    "C07": ("model_checking", MC,
            "On the same traversal every Welcome/external joiner is ledger-compared with the members, its key package deletion is checked around its first write (also when that write meets a storage failure at each of its calls and is retried), and its first commit must be accepted; plus (checks/c07x.rs) an enumerated mismatch matrix of Welcomes / trees / key packages / GroupInfos that must not produce a group and must leave the joiner's stores and the members unchanged, a last-resort key package that must survive, every re-join-with-the-same-storage scenario (write pattern x way of leaving x gap x re-entry x next commit), and the shipped key-package stores against a map for every short operation sequence.",
            "Trusted: explorer, harness stores. Same bounds as C01. Known finding F-C07-1 (re-joiner with stale epoch records cannot follow the group) is listed in known-findings.json.", "DESIGN.md 2/C07, 7.3, 7.5"),
    "C08": ("model_checking", MC,
            "After every commit of the traversal every member's exported tree is re-parsed and re-hashed from scratch by an independent implementation (tree hash, parent-hash chains, unmerged lists, blank rules) and validated by a fresh external observer.",
            "Trusted: explorer, reference tree parser + sha2. Same bounds as C01 with a tree-shaping alphabet.", "DESIGN.md 2/C08"),
    "C09": ("model_checking", MC,
            "After every commit of the traversal every stored private key of every member is tested against the public key of the corresponding node of the exported tree (HPKE seal/open as black box); blank nodes must carry no key; committer path keys must be fresh; a leaf private key replaced by an own update or commit must be gone from the state the member would store.",
            "Trusted: explorer, reference tree parser, hook verif_private_keys (read-only). Same bounds as C01.", "DESIGN.md 2/C09"),
    "C10": ("model_checking", "exhaustive enumeration of (seed tree, committer, set of <=3 (thorough <=4) by-reference proposal atoms out of 18, by-value atom out of 8) cases on forks of real worlds, judged by committer/receiver agreement and a coarse RFC 9420 rule table; plus enumerated sets of correctly signed external-sender / new-member proposals, and an adversarial committer (hook H8) over enumerated invalid proposal sets",
            "Every such case is executed on real members: proposals are sent and delivered (also in reverse order and with one missing), the committer commits, and every receiver must accept with the same applied / unused proposals and epoch state; a member missing a referenced proposal must refuse and stay unchanged; invalid by-value atoms make the build fail, invalid by-reference atoms are never applied, lone valid atoms are applied. Proposals of external senders and new members (valid and with a sender RFC 9420 12.1 does not allow for the type) are committed by reference with the same agreement oracle; 22 invalid proposal sets built into consistent commits by an adversarial committer must be refused by every receiver, 3 valid control sets accepted. In groups whose members differ in the credential types they support, by-reference Adds the RFC forbids are dropped silently and reported unused, valid ones applied, added parties join, and the follow-up commit of every member is built and accepted.",
            "Trusted: explorer, hook verif_state. Where the RFC leaves the choice among conflicting proposals to the committer only agreement is demanded. Receive-side rejection is exercised through hook H8 (lenient proposal filter of the committer); sets for which the committer cannot compute a consistent result even leniently are reported as not constructible.", "DESIGN.md 2/C10"),
    "C11": ("model_checking", MC,
            "Three real members race in one epoch; every interleaving (to the depth bound) of commit / commit_detached / clear / apply / apply_detached with any kept secrets / delivery of any candidate commit, with any candidate as the epoch's winner, is executed and judged against a reference machine {epoch, pending} per member, complete-state equality for what must not change, and the epoch ledger for what advances.",
            "Trusted: explorer, hook verif_state. 3 members, depth 5 (quick) / 7 (thorough), public and encrypted handshake; plus the race / echo deviations of the history model on the full commit alphabet.", "DESIGN.md 2/C11"),
    "C12": ("model_checking", "bounded-exhaustive input enumeration: every offset x boundary byte set, every truncation, every length-prefix rewrite of every item of a corpus of real messages and stored values; all 1/2-byte (thorough: all 4-byte) varints; enumerated Arbitrary seeds",
            "Every corpus item (all message kinds, exported trees, stored snapshots and epoch records, commit secrets, cached proposals, external snapshots; public and encrypted configurations) round-trips with exact length; every single-byte boundary replacement, truncation and length-prefix rewrite decodes to Err or to a value whose re-encoding is the consumed bytes, without panic and within an allocation bound measured by a counting allocator; varints are accepted exactly in shortest form.",
            "Trusted: explorer, counting global allocator, reference varint reader. Hash-map backed storage formats are judged on length/panic/allocation only (no canonical byte order exists for them).", "DESIGN.md 2/C12"),
    "C13": ("model_checking", GRID + "; plus conformance of every epoch of scripted real groups to the reference (shadow joiner)",
            "Every derivation (key schedule, secret tree, per-generation keys, PSK chain, exporter, ExpandWithLabel) is compared with an independent RFC 9420 implementation over an enumerated input grid for every suite of every provider, and every epoch of scripted real groups is re-derived by the reference from the Welcome's joiner secret / the previous init secret and compared with what the members hold, including transcript hashes and tags recomputed from wire bytes.",
            "Trusted: reference::keysched on sha2/hmac; hook derive::* (thin wrappers over the crate-private functions) and verif_epoch_keys (read-only).", "DESIGN.md 2/C13"),
    "C14": ("model_checking", "bounded-exhaustive enumeration of an input grid (lengths, malformed keys, certificate chain defects x validation times) through every pair of shipped providers side by side, plus bounded-exhaustive exploration of mixed-provider groups (every assignment of 3 providers to 4 parties, stateless DFS over real members)",
            "For every pair of providers and every common suite all deterministic primitives are byte-compared over a length grid, randomised ones are cross-consumed in both directions (signatures, HPKE base/PSK, setup_s/setup_r, export), malformed keys / tags / lengths must get the same verdict, every provider assignment of a 4-party group is driven through all short histories with the C01 agreement oracle, and generated certificate chains (depth 1-3 x 16 variants x 5 validation times at the validity boundaries) must get the same and the implied verdict from the three X.509 validators, which must return the public key of the chain's first certificate.",
            "Trusted: the `openssl` crate as certificate generator. Known findings F-C14-1..4 are listed in known-findings.json. Providers are compared with each other, not with test vectors (C13 compares the derivations with an independent reference).", "DESIGN.md 2/C14"),
    "C16": ("model_checking", MC + "; observers (ExternalGroup) at every start epoch and jitter setting are driven along every explored history",
            "On an exhaustive history traversal with public handshake messages, observers created at every epoch with every max_epoch_jitter setting must accept exactly what members accept, hold the members' context/roster/tree after every commit (also across snapshot/load), refuse corrupted, replayed and unresolvable commits, let ciphertexts through exactly inside the configured window without ever panicking, and have their external-sender proposals accepted and committed by members; new-member Add proposals are in the alphabet, and one observer keeps its proposals outside the library (cache_proposals(false), cached_proposal / insert_proposal).",
            "Trusted: explorer, reference framing parser (signature offset). Same bounds as C01 (depth 3 quick / 4 thorough).", "DESIGN.md 2/C16"),
    "C17": ("model_checking", "exhaustive enumeration of (old-group shape, re-init/branch, creator, successor member set, key-package order) cases executed from scratch on the real implementation, judged by an identity-set predicate",
            "Old-group gallery (dense, interior blank leaf, re-keyed member, external-commit joiner) x re-init / branch x every creator x every successor member set (all subsets, superset by an outsider, each member replaced) x key-package orders: creation and joining succeed exactly when the identity sets are equal (re-init) / a subset (branch); outsiders, ex-members and cross-used Welcomes are refused; the old group refuses commits after the re-init; every re-init case in 4 parameter variants (given / no group id, changed context extensions, other cipher suite) must yield a successor with exactly the announced parameters, and an unlinked group with the successor's id is refused by ReinitClient::join.",
            "Trusted: explorer. 6 identities, 6 old-group shapes.", "DESIGN.md 2/C17"),
    "C18": ("model_checking", "exhaustive enumeration of (PSK list, by value/by reference, holder assignment) cases on forks of a real base world, judged by a reference 'holds every listed PSK' predicate",
            "Every ordered PSK list of 1..3 entries over two external ids and resumption epochs 0..7, by value and by reference, with every assignment of {same, other, absent} values to two receivers and a Welcome joiner whose retention windows and join epochs differ: a party reaches the new epoch exactly when it holds the committer's value for every listed PSK, otherwise it refuses and is unchanged; all derived epoch secrets are sensitive to value, id, nonce and order of any one PSK; a resumption PSK naming another group is never resolvable (every committer x epoch number); an external commit injecting an external PSK is followed exactly by the members holding the joiner's value (81 assignments).",
            "Trusted: explorer, hook verif_state / derive. 4 parties, one commit per case.", "DESIGN.md 2/C18"),
    "C19": ("model_checking", "exhaustive enumeration of (retention, commit chain, send epoch, write pattern, sender-leaf fate, store) cases executed from scratch on the real implementation over the tee store, judged by a reference retention model",
            "Every (retention, chain length, send epoch, subset of write positions, fate of the sender's leaf, answering store) case: a late message decrypts exactly when its epoch lies in the model's retention window and the leaf still carries the sender's signature key; the stored window is read back epoch by epoch from both shipped stores after every write.",
            "Trusted: explorer, reference retention model, tee store. R in 1..3 (thorough 1..4), chains up to R+2 (quick) / R+4 (thorough) commits.", "DESIGN.md 2/C19"),
    "C20": ("model_checking", "exhaustive enumeration of all tree sizes 2^0..2^12 and all node indices / leaf pairs against the recursive RFC definitions (sizes above 2^12: spines exhaustive, interior sampled and reported as sampled)",
            "All node indices of all full trees up to 2^12 leaves (and 8 beyond), all leaf pairs up to 2^10 (quick) / 2^12 (thorough) leaves, against the recursive Appendix C definitions.",
            "Trusted: reference::treemath (recursive definitions). Sizes 2^13..2^24 are partly sampled (VERIF_SEED) and not counted as exhaustive.", "DESIGN.md 2/C20"),
    "C15": ("fault_enumeration", "exhaustive single and pairwise storage-fault enumeration on every operation of every explored history (real implementation, harness-owned stores with a fault plan)",
            "For every history (to the depth bound) of a target member and every operation in it, every storage call the operation makes is failed once and in pairs on forks: the operation must fail, leave complete state and stores unchanged, and a fault-free retry must end exactly like the fault-free twin. Depth 5 (quick) / 6 (thorough).",
            "Trusted: explorer, harness stores implementing the documented store semantics (the shipped stores are exercised in C06/C19), hook verif_state. Faults are injected between trait calls; torn writes inside one call are out of reach of the seam. Known finding F-C15-1 (encrypted commit + storage fault, thorough tier) is listed in known-findings.json.", "DESIGN.md 2/C15, 7.5"),
}

NOT_YET ="check not built yet (work in progress; see DESIGN.md section 2)"

def main():
    hooks_commits = subprocess.run(["git", "-C", "/repo", "log", "--format=%h %s", "--grep=verif hooks"], capture_output=True, text=True).stdout.strip().splitlines()
    checks = []
    for p in props:
        pid = p["id"]
        if pid not in CHECKS:
            continue
        cat, tech, text, note, ref = CHECKS[pid]
        checks.append({
            "property_id": pid,
            "quick_cmd": f"cd /verif && bin/check {pid} quick",
            "thorough_cmd": f"cd /verif && bin/check {pid} thorough",
            "evidence_file": f"/verif/evidence/{pid}.json",
            "replay_cmd_template": f"cd /verif && bin/check {pid} replay {{path}}",
            "engine": "mlsmc",
            "level_claimed": {"category": cat, "text": text, "design_ref": ref},
            "level_note": note,
            "technique": tech,
        })
    m = {
        "version": 1,
        "setup_cmd": "cd /verif/mc && CARGO_NET_OFFLINE=true cargo build --release --offline",
        "hooks": {
            "guard": "cargo feature `verif_hooks` of crate mls-rs (off by default; nothing in the workspace enables it)",
            "enable": "the harness crate /verif/mc depends on /repo/mls-rs by path with features=[\"verif_hooks\", ...]; bin/check rebuilds it from /repo's working tree",
            "baseline_off_cmd": "cd /repo && cargo test --workspace --no-fail-fast --offline",
            "source_commits": [c.split()[0] for c in hooks_commits],
            "add_only": True,
        },
        "engines": [{
            "name": "mlsmc",
            "path": "/verif/mc",
            "serves_properties": sorted(CHECKS),
            "kind_free_text": "stateless explicit-state explorer over real mls-rs objects (Group is Clone; harness-owned crypto/storage/identity providers), sharded over worker processes; independent RFC 9420 reference code for oracles",
        }],
        "checks": checks,
        "not_applicable": [{"property_id": p["id"], "reason": NOT_YET} for p in props if p["id"] not in CHECKS],
        "notes": "bin/check <ID> <quick|thorough|replay PATH>; exit 0 held / 1 violation / 2 machinery error. Known findings: /verif/known-findings.json.",
    }
    json.dump(m, open(os.path.join(ROOT, "MANIFEST.json"), "w"), indent=1)
    print("claimed:", sorted(CHECKS), "unclaimed:", [x["property_id"] for x in m["not_applicable"]])

main()
