//! RFC 9420 section 8 (key schedule), 9 (secret tree), 8.4 (PSK), 8.5 (exporter), 6.1/8.1 tags,
//! written from the RFC on bare `sha2` / `hmac`; HKDF (RFC 5869) is spelled out by hand.

use hmac::{Hmac, Mac};
use sha2::{Digest, Sha256, Sha384, Sha512};

use super::tls::put_vbytes;

#[derive(Clone, Copy, Debug, PartialEq, Eq)]
pub struct Suite(pub u16);

impl Suite {
    pub fn nh(&self) -> usize {
        match self.0 {
            1 | 2 | 3 => 32,
            7 => 48,
            4 | 5 | 6 => 64,
            _ => panic!("MACHINERY: unknown suite"),
        }
    }
    pub fn nk(&self) -> usize {
        match self.0 {
            1 | 2 => 16,
            _ => 32,
        }
    }
    pub fn nn(&self) -> usize {
        12
    }
    pub fn hash(&self, data: &[u8]) -> Vec<u8> {
        match self.nh() {
            32 => Sha256::digest(data).to_vec(),
            48 => Sha384::digest(data).to_vec(),
            _ => Sha512::digest(data).to_vec(),
        }
    }
    pub fn hmac(&self, key: &[u8], data: &[u8]) -> Vec<u8> {
        match self.nh() {
            32 => {
                let mut m = Hmac::<Sha256>::new_from_slice(key).unwrap();
                m.update(data);
                m.finalize().into_bytes().to_vec()
            }
            48 => {
                let mut m = Hmac::<Sha384>::new_from_slice(key).unwrap();
                m.update(data);
                m.finalize().into_bytes().to_vec()
            }
            _ => {
                let mut m = Hmac::<Sha512>::new_from_slice(key).unwrap();
                m.update(data);
                m.finalize().into_bytes().to_vec()
            }
        }
    }
    /// HKDF-Extract(salt, ikm) = HMAC(salt, ikm); an empty salt means Nh zero bytes
    pub fn extract(&self, salt: &[u8], ikm: &[u8]) -> Vec<u8> {
        let zeros = vec![0u8; self.nh()];
        self.hmac(if salt.is_empty() { &zeros } else { salt }, ikm)
    }
    /// HKDF-Expand(prk, info, len)
    pub fn expand(&self, prk: &[u8], info: &[u8], len: usize) -> Vec<u8> {
        let mut out = vec![];
        let mut t: Vec<u8> = vec![];
        let mut i = 1u8;
        while out.len() < len {
            let mut inp = t.clone();
            inp.extend_from_slice(info);
            inp.push(i);
            t = self.hmac(prk, &inp);
            out.extend_from_slice(&t);
            i = i.wrapping_add(1);
        }
        out.truncate(len);
        out
    }
    pub fn expand_with_label(&self, secret: &[u8], label: &[u8], context: &[u8], len: usize) -> Vec<u8> {
        let mut info = (len as u16).to_be_bytes().to_vec();
        let mut full = b"MLS 1.0 ".to_vec();
        full.extend_from_slice(label);
        put_vbytes(&mut info, &full);
        put_vbytes(&mut info, context);
        self.expand(secret, &info, len)
    }
    pub fn derive_secret(&self, secret: &[u8], label: &[u8]) -> Vec<u8> {
        self.expand_with_label(secret, label, &[], self.nh())
    }
}

#[derive(Clone, Debug, PartialEq, Eq)]
pub struct Epoch {
    pub joiner_secret: Vec<u8>,
    pub welcome_key: Vec<u8>,
    pub welcome_nonce: Vec<u8>,
    pub epoch_secret: Vec<u8>,
    pub sender_data_secret: Vec<u8>,
    pub encryption_secret: Vec<u8>,
    pub exporter_secret: Vec<u8>,
    pub external_secret: Vec<u8>,
    pub confirmation_key: Vec<u8>,
    pub membership_key: Vec<u8>,
    pub resumption_psk: Vec<u8>,
    pub epoch_authenticator: Vec<u8>,
    pub init_secret: Vec<u8>,
}

pub fn joiner_secret(s: Suite, init_secret: &[u8], commit_secret: &[u8], context: &[u8]) -> Vec<u8> {
    let pre = s.extract(init_secret, commit_secret);
    s.expand_with_label(&pre, b"joiner", context, s.nh())
}

pub fn epoch_from_joiner(s: Suite, joiner: &[u8], psk_secret: &[u8], context: &[u8]) -> Epoch {
    let member = s.extract(joiner, psk_secret);
    let welcome_secret = s.derive_secret(&member, b"welcome");
    let epoch_secret = s.expand_with_label(&member, b"epoch", context, s.nh());
    let d = |l: &[u8]| s.derive_secret(&epoch_secret, l);
    Epoch {
        joiner_secret: joiner.to_vec(),
        welcome_key: s.expand_with_label(&welcome_secret, b"key", &[], s.nk()),
        welcome_nonce: s.expand_with_label(&welcome_secret, b"nonce", &[], s.nn()),
        sender_data_secret: d(b"sender data"),
        encryption_secret: d(b"encryption"),
        exporter_secret: d(b"exporter"),
        external_secret: d(b"external"),
        confirmation_key: d(b"confirm"),
        membership_key: d(b"membership"),
        resumption_psk: d(b"resumption"),
        epoch_authenticator: d(b"authentication"),
        init_secret: d(b"init"),
        epoch_secret,
    }
}

pub fn epoch_from_init(s: Suite, init_secret: &[u8], commit_secret: &[u8], psk_secret: &[u8], context: &[u8]) -> Epoch {
    let j = joiner_secret(s, init_secret, commit_secret, context);
    epoch_from_joiner(s, &j, psk_secret, context)
}

pub fn export(s: Suite, exporter_secret: &[u8], label: &[u8], context: &[u8], len: usize) -> Vec<u8> {
    let d = s.derive_secret(exporter_secret, label);
    s.expand_with_label(&d, b"exported", &s.hash(context), len)
}

/// Secret of tree node `x` of a full secret tree with `n` leaves, by descending from the root.
pub fn tree_node_secret(s: Suite, encryption_secret: &[u8], n: u32, x: u32) -> Vec<u8> {
    use super::treemath as tm;
    let mut cur = tm::root(n);
    let mut sec = encryption_secret.to_vec();
    while cur != x {
        let (l, r) = (tm::left(cur).unwrap(), tm::right(cur).unwrap());
        if x < cur {
            sec = s.expand_with_label(&sec, b"tree", b"left", s.nh());
            cur = l;
        } else {
            sec = s.expand_with_label(&sec, b"tree", b"right", s.nh());
            cur = r;
        }
    }
    sec
}

/// (key, nonce) of `generation` of the handshake / application ratchet of `leaf`.
pub fn message_key(s: Suite, encryption_secret: &[u8], n: u32, leaf: u32, handshake: bool, generation: u32) -> (Vec<u8>, Vec<u8>) {
    let leaf_secret = tree_node_secret(s, encryption_secret, n, 2 * leaf);
    let mut sec = s.expand_with_label(&leaf_secret, if handshake { b"handshake" } else { b"application" }, &[], s.nh());
    for g in 0..generation {
        sec = s.expand_with_label(&sec, b"secret", &g.to_be_bytes(), s.nh());
    }
    let ctx = generation.to_be_bytes();
    (s.expand_with_label(&sec, b"key", &ctx, s.nk()), s.expand_with_label(&sec, b"nonce", &ctx, s.nn()))
}

/// psk_secret of section 8.4 for (encoded PreSharedKeyID, psk value) in order.
pub fn psk_secret(s: Suite, psks: &[(Vec<u8>, Vec<u8>)]) -> Vec<u8> {
    let mut acc = vec![0u8; s.nh()];
    let count = psks.len() as u16;
    for (i, (id, psk)) in psks.iter().enumerate() {
        let extracted = s.extract(&vec![0u8; s.nh()], psk);
        let mut label = id.clone();
        label.extend((i as u16).to_be_bytes());
        label.extend(count.to_be_bytes());
        let input = s.expand_with_label(&extracted, b"derived psk", &label, s.nh());
        acc = s.extract(&input, &acc);
    }
    acc
}

pub fn confirmation_tag(s: Suite, confirmation_key: &[u8], confirmed_transcript_hash: &[u8]) -> Vec<u8> {
    s.hmac(confirmation_key, confirmed_transcript_hash)
}
