//! Minimal TLS-presentation-language reader/writer with MLS variable-size length prefixes
//! (RFC 9420 section 2.1.2 / RFC 9000 section 16, restricted to 1, 2 and 4 byte forms).

#[derive(Debug, Clone, PartialEq, Eq)]
pub enum RErr {
    Eof,
    BadVarint,
    NonMinimal,
    Bad(&'static str),
}

#[derive(Clone)]
pub struct Rd<'a> {
    pub buf: &'a [u8],
    pub pos: usize,
}

impl<'a> Rd<'a> {
    pub fn new(buf: &'a [u8]) -> Self {
        Rd { buf, pos: 0 }
    }
    pub fn remaining(&self) -> usize {
        self.buf.len() - self.pos
    }
    pub fn done(&self) -> bool {
        self.pos == self.buf.len()
    }
    pub fn take(&mut self, n: usize) -> Result<&'a [u8], RErr> {
        if self.remaining() < n {
            return Err(RErr::Eof);
        }
        let s = &self.buf[self.pos..self.pos + n];
        self.pos += n;
        Ok(s)
    }
    pub fn u8(&mut self) -> Result<u8, RErr> {
        Ok(self.take(1)?[0])
    }
    pub fn u16(&mut self) -> Result<u16, RErr> {
        let b = self.take(2)?;
        Ok(u16::from_be_bytes([b[0], b[1]]))
    }
    pub fn u32(&mut self) -> Result<u32, RErr> {
        let b = self.take(4)?;
        Ok(u32::from_be_bytes([b[0], b[1], b[2], b[3]]))
    }
    pub fn u64(&mut self) -> Result<u64, RErr> {
        let b = self.take(8)?;
        Ok(u64::from_be_bytes(b.try_into().unwrap()))
    }
    /// MLS variable-length integer; rejects the 8-byte form and non-minimal encodings.
    pub fn varint(&mut self) -> Result<u32, RErr> {
        let b0 = self.u8()?;
        match b0 >> 6 {
            0 => Ok((b0 & 0x3f) as u32),
            1 => {
                let b1 = self.u8()?;
                let v = (((b0 & 0x3f) as u32) << 8) | b1 as u32;
                if v < 64 {
                    return Err(RErr::NonMinimal);
                }
                Ok(v)
            }
            2 => {
                let r = self.take(3)?;
                let v = (((b0 & 0x3f) as u32) << 24) | ((r[0] as u32) << 16) | ((r[1] as u32) << 8) | r[2] as u32;
                if v < 16384 {
                    return Err(RErr::NonMinimal);
                }
                Ok(v)
            }
            _ => Err(RErr::BadVarint),
        }
    }
    /// opaque<V>
    pub fn vbytes(&mut self) -> Result<&'a [u8], RErr> {
        let n = self.varint()? as usize;
        self.take(n)
    }
    /// sub-reader over a vector<V>
    pub fn vsub(&mut self) -> Result<Rd<'a>, RErr> {
        Ok(Rd::new(self.vbytes()?))
    }
    /// bytes consumed between two positions
    pub fn slice_from(&self, start: usize) -> &'a [u8] {
        &self.buf[start..self.pos]
    }
}

pub fn put_varint(out: &mut Vec<u8>, v: usize) {
    if v < 64 {
        out.push(v as u8);
    } else if v < 16384 {
        out.extend(((v as u16) | 0x4000).to_be_bytes());
    } else {
        assert!(v < (1 << 30));
        out.extend(((v as u32) | 0x8000_0000).to_be_bytes());
    }
}

pub fn put_vbytes(out: &mut Vec<u8>, b: &[u8]) {
    put_varint(out, b.len());
    out.extend_from_slice(b);
}
