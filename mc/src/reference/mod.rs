//! Independent reference models written from the RFC 9420 text. Nothing in this module (or its
//! children) imports mls-rs, mls-rs-core or mls-rs-codec; hashing is `sha2`, MAC is `hmac`.
pub mod framing;
pub mod keysched;
pub mod tls;
pub mod treebytes;
pub mod treemath;
