//! Field-offset parser for MLSMessage (RFC 9420 section 6): yields named byte regions
//! `(name, start, end)` for public/private messages, Welcome, GroupInfo and KeyPackage.
//! Used to aim mutations at every validation stage and to splice fields between messages.

use super::tls::{RErr, Rd};
use super::treebytes::parse_leaf;

#[derive(Clone, Debug, PartialEq, Eq)]
pub struct Region {
    pub name: String,
    pub start: usize,
    pub end: usize,
}

#[derive(Clone, Debug, PartialEq, Eq)]
pub struct Layout {
    pub wire_format: u16,
    /// 1 application, 2 proposal, 3 commit (0 for non-content messages)
    pub content_type: u8,
    pub regions: Vec<Region>,
    pub consumed: usize,
}

struct B<'a> {
    r: Rd<'a>,
    regions: Vec<Region>,
}

impl<'a> B<'a> {
    fn mark<T>(&mut self, name: &str, f: impl FnOnce(&mut Rd<'a>) -> Result<T, RErr>) -> Result<T, RErr> {
        let s = self.r.pos;
        let v = f(&mut self.r)?;
        self.regions.push(Region { name: name.into(), start: s, end: self.r.pos });
        Ok(v)
    }
}

fn skip_extensions(r: &mut Rd) -> Result<(), RErr> {
    r.vbytes().map(|_| ())
}

fn skip_key_package(r: &mut Rd) -> Result<(), RErr> {
    r.u16()?;
    r.u16()?;
    r.vbytes()?;
    parse_leaf(r)?;
    skip_extensions(r)?;
    r.vbytes()?;
    Ok(())
}

fn skip_psk_id(r: &mut Rd) -> Result<(), RErr> {
    match r.u8()? {
        1 => {
            r.vbytes()?;
        }
        2 => {
            r.u8()?;
            r.vbytes()?;
            r.u64()?;
        }
        _ => return Err(RErr::Bad("psk type")),
    }
    r.vbytes()?;
    Ok(())
}

/// Skip one PreSharedKeyID (RFC 9420 section 8.4).
pub fn skip_proposal_psk_id(r: &mut Rd) -> Result<(), RErr> {
    skip_psk_id(r)
}

pub fn skip_proposal(r: &mut Rd) -> Result<u16, RErr> {
    let t = r.u16()?;
    match t {
        1 => skip_key_package(r)?,
        2 => {
            parse_leaf(r)?;
        }
        3 => {
            r.u32()?;
        }
        4 => skip_psk_id(r)?,
        5 => {
            r.vbytes()?;
            r.u16()?;
            r.u16()?;
            skip_extensions(r)?;
        }
        6 => {
            r.vbytes()?;
        }
        7 => skip_extensions(r)?,
        _ => {
            // custom proposal: opaque data<V>
            r.vbytes()?;
        }
    }
    Ok(t)
}

fn framed_content(b: &mut B) -> Result<(u8, u8), RErr> {
    b.mark("group_id", |r| r.vbytes().map(|_| ()))?;
    b.mark("epoch", |r| r.u64().map(|_| ()))?;
    let sender_type = b.mark("sender", |r| {
        let t = r.u8()?;
        match t {
            1 | 2 => {
                r.u32()?;
            }
            3 | 4 => {}
            _ => return Err(RErr::Bad("sender type")),
        }
        Ok(t)
    })?;
    b.mark("authenticated_data", |r| r.vbytes().map(|_| ()))?;
    let ct = b.mark("content_type", |r| r.u8())?;
    match ct {
        1 => {
            b.mark("application_data", |r| r.vbytes().map(|_| ()))?;
        }
        2 => {
            b.mark("proposal", |r| skip_proposal(r).map(|_| ()))?;
        }
        3 => {
            b.mark("commit.proposals", |r| r.vbytes().map(|_| ()))?;
            let present = b.mark("commit.path_present", |r| r.u8())?;
            if present == 1 {
                b.mark("commit.path.leaf_node", |r| parse_leaf(r).map(|_| ()))?;
                b.mark("commit.path.nodes", |r| r.vbytes().map(|_| ()))?;
            } else if present != 0 {
                return Err(RErr::Bad("optional"));
            }
        }
        _ => return Err(RErr::Bad("content type")),
    }
    Ok((sender_type, ct))
}

fn group_info(b: &mut B) -> Result<(), RErr> {
    b.mark("group_context", |r| {
        r.u16()?;
        r.u16()?;
        r.vbytes()?;
        r.u64()?;
        r.vbytes()?;
        r.vbytes()?;
        skip_extensions(r)
    })?;
    b.mark("group_info.extensions", skip_extensions)?;
    b.mark("confirmation_tag", |r| r.vbytes().map(|_| ()))?;
    b.mark("signer", |r| r.u32().map(|_| ()))?;
    b.mark("signature", |r| r.vbytes().map(|_| ()))?;
    Ok(())
}

pub fn layout(msg: &[u8]) -> Result<Layout, RErr> {
    let mut b = B { r: Rd::new(msg), regions: vec![] };
    b.mark("version", |r| r.u16().map(|_| ()))?;
    let wf = b.mark("wire_format", |r| r.u16())?;
    let mut content_type = 0;
    match wf {
        1 => {
            let (st, ct) = framed_content(&mut b)?;
            content_type = ct;
            b.mark("signature", |r| r.vbytes().map(|_| ()))?;
            if ct == 3 {
                b.mark("confirmation_tag", |r| r.vbytes().map(|_| ()))?;
            }
            if st == 1 {
                b.mark("membership_tag", |r| r.vbytes().map(|_| ()))?;
            }
        }
        2 => {
            b.mark("group_id", |r| r.vbytes().map(|_| ()))?;
            b.mark("epoch", |r| r.u64().map(|_| ()))?;
            content_type = b.mark("content_type", |r| r.u8())?;
            b.mark("authenticated_data", |r| r.vbytes().map(|_| ()))?;
            b.mark("encrypted_sender_data", |r| r.vbytes().map(|_| ()))?;
            b.mark("ciphertext", |r| r.vbytes().map(|_| ()))?;
        }
        3 => {
            b.mark("cipher_suite", |r| r.u16().map(|_| ()))?;
            let s = b.r.pos;
            let mut secrets = b.r.vsub()?;
            let base = b.r.pos - secrets.buf.len();
            let mut i = 0;
            while !secrets.done() {
                let st = secrets.pos;
                secrets.vbytes()?; // new_member ref
                let mid = secrets.pos;
                secrets.vbytes()?; // kem_output
                secrets.vbytes()?; // ciphertext
                b.regions.push(Region { name: format!("secrets[{i}].new_member"), start: base + st, end: base + mid });
                b.regions.push(Region { name: format!("secrets[{i}].encrypted_group_secrets"), start: base + mid, end: base + secrets.pos });
                i += 1;
            }
            b.regions.push(Region { name: "secrets".into(), start: s, end: b.r.pos });
            b.mark("encrypted_group_info", |r| r.vbytes().map(|_| ()))?;
        }
        4 => group_info(&mut b)?,
        5 => {
            b.mark("key_package.version_suite", |r| {
                r.u16()?;
                r.u16().map(|_| ())
            })?;
            b.mark("key_package.init_key", |r| r.vbytes().map(|_| ()))?;
            b.mark("key_package.leaf_node", |r| parse_leaf(r).map(|_| ()))?;
            b.mark("key_package.extensions", skip_extensions)?;
            b.mark("key_package.signature", |r| r.vbytes().map(|_| ()))?;
        }
        _ => return Err(RErr::Bad("wire format")),
    }
    Ok(Layout { wire_format: wf, content_type, regions: b.regions, consumed: b.r.pos })
}

impl Layout {
    pub fn region(&self, name: &str) -> Option<&Region> {
        self.regions.iter().find(|r| r.name == name)
    }
    /// name of the innermost region containing byte offset `off`
    pub fn region_of(&self, off: usize) -> &str {
        self.regions
            .iter()
            .filter(|r| r.start <= off && off < r.end)
            .min_by_key(|r| r.end - r.start)
            .map(|r| r.name.as_str())
            .unwrap_or("?")
    }
}

/// Replace region `name` of `a` by the same-named region of `b` (field splice).
pub fn splice(a: &[u8], la: &Layout, b: &[u8], lb: &Layout, name: &str) -> Option<Vec<u8>> {
    let ra = la.region(name)?;
    let rb = lb.region(name)?;
    let mut out = a[..ra.start].to_vec();
    out.extend_from_slice(&b[rb.start..rb.end]);
    out.extend_from_slice(&a[ra.end..]);
    Some(out)
}
