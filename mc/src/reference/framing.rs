// filled in later
