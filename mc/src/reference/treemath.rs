//! RFC 9420 Appendix C array-based tree math, written as the *recursive* definitions
//! (parent by descent from the root), independent of mls-rs's bit tricks.
//! `n` is always the number of leaves of a full (power-of-two) tree.

pub fn log2(x: u32) -> u32 {
    if x == 0 {
        return 0;
    }
    let mut k = 0;
    while (x >> k) > 0 {
        k += 1;
    }
    k - 1
}

/// level of a node: number of trailing one bits
pub fn level(x: u32) -> u32 {
    if x & 1 == 0 {
        return 0;
    }
    let mut k = 0;
    while (x >> k) & 1 == 1 {
        k += 1;
    }
    k
}

pub fn node_width(n: u32) -> u32 {
    if n == 0 {
        0
    } else {
        2 * (n - 1) + 1
    }
}

pub fn root(n: u32) -> u32 {
    let w = node_width(n);
    (1 << log2(w)) - 1
}

pub fn left(x: u32) -> Option<u32> {
    let k = level(x);
    if k == 0 {
        return None;
    }
    Some(x ^ (1 << (k - 1)))
}

pub fn right(x: u32) -> Option<u32> {
    let k = level(x);
    if k == 0 {
        return None;
    }
    Some(x ^ (3 << (k - 1)))
}

/// parent found by descending from the root (independent of the bit formula)
pub fn parent(x: u32, n: u32) -> Option<u32> {
    let r = root(n);
    if x == r || x >= node_width(n) {
        return None;
    }
    let mut cur = r;
    loop {
        let l = left(cur)?;
        let rr = right(cur)?;
        if l == x || rr == x {
            return Some(cur);
        }
        cur = if x < cur { l } else { rr };
    }
}

pub fn sibling(x: u32, n: u32) -> Option<u32> {
    let p = parent(x, n)?;
    if x < p {
        right(p)
    } else {
        left(p)
    }
}

/// direct path of x: parents up to and including the root (excluding x)
pub fn direct_path(x: u32, n: u32) -> Vec<u32> {
    let mut out = vec![];
    if x >= node_width(n) {
        return out;
    }
    let mut cur = x;
    while let Some(p) = parent(cur, n) {
        out.push(p);
        cur = p;
    }
    out
}

/// copath of x: siblings of x and of every node on its direct path except the root
pub fn copath(x: u32, n: u32) -> Vec<u32> {
    let mut out = vec![];
    if x >= node_width(n) {
        return out;
    }
    let mut cur = x;
    while let Some(s) = sibling(cur, n) {
        out.push(s);
        cur = parent(cur, n).unwrap();
    }
    out
}

/// lowest common ancestor of two leaves given as leaf indices, by walking up
pub fn common_ancestor_level(a_leaf: u32, b_leaf: u32, n: u32) -> u32 {
    let (mut x, mut y) = (2 * a_leaf, 2 * b_leaf);
    while x != y {
        // lift the lower one
        if level(x) <= level(y) {
            x = parent(x, n).unwrap();
        } else {
            y = parent(y, n).unwrap();
        }
    }
    level(x)
}

/// leaf range [lo, hi) (leaf indices) under node x: collected recursively
pub fn leaf_range(x: u32) -> (u32, u32) {
    match (left(x), right(x)) {
        (Some(l), Some(r)) => (leaf_range(l).0, leaf_range(r).1),
        _ => (x / 2, x / 2 + 1),
    }
}

/// breadth-first order, top-down, of all nodes of a full tree with n leaves
pub fn bfs_top_down(n: u32) -> Vec<u32> {
    let mut out = vec![];
    let mut level_nodes = vec![root(n)];
    while !level_nodes.is_empty() {
        out.extend(&level_nodes);
        let mut next = vec![];
        for x in &level_nodes {
            if let (Some(l), Some(r)) = (left(*x), right(*x)) {
                next.push(l);
                next.push(r);
            }
        }
        level_nodes = next;
    }
    out
}
