//! Independent parser for an exported ratchet tree (`optional<Node> ratchet_tree<V>`,
//! RFC 9420 section 12.4.3.3) and from-scratch computations on it: tree hash (7.8), parent hash
//! (7.9), resolution (4.1.1), filtered direct path (4.1.2), structural invariants.

use super::tls::{put_vbytes, RErr, Rd};
use super::treemath as tm;
use sha2::{Digest, Sha256, Sha384, Sha512};

#[derive(Clone, Debug, PartialEq, Eq)]
pub struct Leaf {
    pub encryption_key: Vec<u8>,
    pub signature_key: Vec<u8>,
    pub credential_type: u16,
    /// basic credential identity (empty for other credential types)
    pub identity: Vec<u8>,
    /// 1 key_package, 2 update, 3 commit
    pub source: u8,
    pub parent_hash: Vec<u8>,
    pub extensions_raw: Vec<u8>,
    pub capabilities_raw: Vec<u8>,
    /// the complete encoded LeafNode
    pub raw: Vec<u8>,
}

#[derive(Clone, Debug, PartialEq, Eq)]
pub struct Parent {
    pub encryption_key: Vec<u8>,
    pub parent_hash: Vec<u8>,
    pub unmerged: Vec<u32>,
    pub raw: Vec<u8>,
}

#[derive(Clone, Debug, PartialEq, Eq)]
pub enum Node {
    Leaf(Leaf),
    Parent(Parent),
}

impl Node {
    pub fn key(&self) -> &[u8] {
        match self {
            Node::Leaf(l) => &l.encryption_key,
            Node::Parent(p) => &p.encryption_key,
        }
    }
}

#[derive(Clone, Debug, PartialEq, Eq)]
pub struct Tree {
    /// as exported (possibly shorter than the full width)
    pub nodes: Vec<Option<Node>>,
}

pub fn parse_leaf(r: &mut Rd) -> Result<Leaf, RErr> {
    let start = r.pos;
    let encryption_key = r.vbytes()?.to_vec();
    let signature_key = r.vbytes()?.to_vec();
    let credential_type = r.u16()?;
    let mut identity = vec![];
    match credential_type {
        1 => identity = r.vbytes()?.to_vec(),
        2 => {
            // Certificate certificates<V>, each cert_data<V>
            let mut certs = r.vsub()?;
            while !certs.done() {
                certs.vbytes()?;
            }
        }
        _ => {
            // unknown credential: mls-rs encodes custom credentials as opaque<V>
            r.vbytes()?;
        }
    }
    let cap_start = r.pos;
    for _ in 0..5 {
        r.vbytes()?;
    }
    let capabilities_raw = r.slice_from(cap_start).to_vec();
    let source = r.u8()?;
    let mut parent_hash = vec![];
    match source {
        1 => {
            r.u64()?;
            r.u64()?;
        }
        2 => {}
        3 => parent_hash = r.vbytes()?.to_vec(),
        _ => return Err(RErr::Bad("leaf_node_source")),
    }
    let extensions_raw = r.vbytes()?.to_vec();
    r.vbytes()?; // signature
    Ok(Leaf {
        encryption_key,
        signature_key,
        credential_type,
        identity,
        source,
        parent_hash,
        extensions_raw,
        capabilities_raw,
        raw: r.slice_from(start).to_vec(),
    })
}

pub fn parse_parent(r: &mut Rd) -> Result<Parent, RErr> {
    let start = r.pos;
    let encryption_key = r.vbytes()?.to_vec();
    let parent_hash = r.vbytes()?.to_vec();
    let mut u = r.vsub()?;
    let mut unmerged = vec![];
    while !u.done() {
        unmerged.push(u.u32()?);
    }
    Ok(Parent { encryption_key, parent_hash, unmerged, raw: r.slice_from(start).to_vec() })
}

impl Tree {
    pub fn parse(bytes: &[u8]) -> Result<Tree, RErr> {
        let mut top = Rd::new(bytes);
        let mut r = top.vsub()?;
        if !top.done() {
            return Err(RErr::Bad("trailing bytes after ratchet tree"));
        }
        let mut nodes = vec![];
        while !r.done() {
            match r.u8()? {
                0 => nodes.push(None),
                1 => {
                    let idx = nodes.len();
                    let t = r.u8()?;
                    match (t, idx % 2) {
                        (1, 0) => nodes.push(Some(Node::Leaf(parse_leaf(&mut r)?))),
                        (2, 1) => nodes.push(Some(Node::Parent(parse_parent(&mut r)?))),
                        _ => return Err(RErr::Bad("node type does not match position")),
                    }
                }
                _ => return Err(RErr::Bad("optional tag")),
            }
        }
        Ok(Tree { nodes })
    }

    /// number of leaves of the full tree
    pub fn n_leaves(&self) -> u32 {
        let leaves = (self.nodes.len() as u32) / 2 + 1;
        leaves.next_power_of_two()
    }

    pub fn node(&self, x: u32) -> Option<&Node> {
        self.nodes.get(x as usize).and_then(|n| n.as_ref())
    }
    pub fn leaf(&self, leaf: u32) -> Option<&Leaf> {
        match self.node(2 * leaf) {
            Some(Node::Leaf(l)) => Some(l),
            _ => None,
        }
    }
    pub fn parent(&self, x: u32) -> Option<&Parent> {
        match self.node(x) {
            Some(Node::Parent(p)) => Some(p),
            _ => None,
        }
    }

    pub fn occupied_leaves(&self) -> Vec<u32> {
        (0..self.n_leaves()).filter(|&l| self.leaf(l).is_some()).collect()
    }

    /// Resolution (RFC 9420 section 4.1.1) as node indices.
    pub fn resolution(&self, x: u32) -> Vec<u32> {
        match self.node(x) {
            Some(Node::Leaf(_)) => vec![x],
            Some(Node::Parent(p)) => {
                let mut v = vec![x];
                v.extend(p.unmerged.iter().map(|l| 2 * l));
                v
            }
            None => match (tm::left(x), tm::right(x)) {
                (Some(l), Some(r)) => {
                    let mut v = self.resolution(l);
                    v.extend(self.resolution(r));
                    v
                }
                _ => vec![],
            },
        }
    }

    /// Filtered direct path of a leaf: (path node, copath node) where the copath child's
    /// resolution is non-empty.
    pub fn filtered_direct_path(&self, leaf: u32) -> Vec<(u32, u32)> {
        let n = self.n_leaves();
        let dp = tm::direct_path(2 * leaf, n);
        let cp = tm::copath(2 * leaf, n);
        dp.into_iter().zip(cp).filter(|(_, c)| !self.resolution(*c).is_empty()).collect()
    }

    fn hash(suite: u16, data: &[u8]) -> Vec<u8> {
        match suite {
            1 | 2 | 3 => Sha256::digest(data).to_vec(),
            7 => Sha384::digest(data).to_vec(),
            4 | 5 | 6 => Sha512::digest(data).to_vec(),
            _ => panic!("MACHINERY: unknown suite for hashing"),
        }
    }

    /// Tree hash of node x over the full tree, excluding the leaves in `exclude`
    /// (used by the parent-hash "original sibling tree hash").
    pub fn tree_hash_node(&self, suite: u16, x: u32, exclude: &[u32]) -> Vec<u8> {
        let mut inp = vec![];
        if x % 2 == 0 {
            inp.push(1u8);
            inp.extend((x / 2).to_be_bytes());
            match self.leaf(x / 2) {
                Some(l) if !exclude.contains(&(x / 2)) => {
                    inp.push(1);
                    inp.extend(&l.raw);
                }
                _ => inp.push(0),
            }
        } else {
            inp.push(2u8);
            match self.parent(x) {
                Some(p) => {
                    inp.push(1);
                    if exclude.is_empty() {
                        inp.extend(&p.raw);
                    } else {
                        put_vbytes(&mut inp, &p.encryption_key);
                        put_vbytes(&mut inp, &p.parent_hash);
                        let um: Vec<u8> = p.unmerged.iter().filter(|l| !exclude.contains(l)).flat_map(|l| l.to_be_bytes()).collect();
                        put_vbytes(&mut inp, &um);
                    }
                }
                None => inp.push(0),
            }
            let l = self.tree_hash_node(suite, tm::left(x).unwrap(), exclude);
            let r = self.tree_hash_node(suite, tm::right(x).unwrap(), exclude);
            put_vbytes(&mut inp, &l);
            put_vbytes(&mut inp, &r);
        }
        Self::hash(suite, &inp)
    }

    pub fn tree_hash(&self, suite: u16) -> Vec<u8> {
        self.tree_hash_node(suite, tm::root(self.n_leaves()), &[])
    }

    /// Parent-hash validity (RFC 9420 section 7.9.2): every non-blank parent P must have a
    /// child side in which some node D of resolution(child) - unmerged(P) carries
    /// parent_hash == ParentHash(P, original sibling tree hash of the other side).
    pub fn parent_hashes_valid(&self, suite: u16) -> Result<(), String> {
        let n = self.n_leaves();
        for x in (1..tm::node_width(n)).step_by(2) {
            let Some(p) = self.parent(x) else { continue };
            let (l, r) = (tm::left(x).unwrap(), tm::right(x).unwrap());
            let mut ok = false;
            for (child, sib) in [(l, r), (r, l)] {
                let sib_hash = self.tree_hash_node(suite, sib, &p.unmerged);
                let mut inp = vec![];
                put_vbytes(&mut inp, &p.encryption_key);
                put_vbytes(&mut inp, &p.parent_hash);
                put_vbytes(&mut inp, &sib_hash);
                let ph = Self::hash(suite, &inp);
                let (clo, chi) = tm::leaf_range(child);
                let mut below: Vec<u32> = p.unmerged.iter().copied().filter(|u| *u >= clo && *u < chi).map(|u| 2 * u).collect();
                below.sort();
                let res = self.resolution(child);
                for &d in &res {
                    let mut rest: Vec<u32> = res.iter().copied().filter(|y| *y != d).collect();
                    rest.sort();
                    if rest != below {
                        continue;
                    }
                    let d_ph = match self.node(d) {
                        Some(Node::Leaf(lf)) => (lf.source == 3).then(|| lf.parent_hash.clone()),
                        Some(Node::Parent(pp)) => Some(pp.parent_hash.clone()),
                        None => None,
                    };
                    if d_ph.as_deref() == Some(&ph[..]) {
                        ok = true;
                    }
                }
            }
            if !ok {
                return Err(format!("parent node {x} is not parent-hash valid"));
            }
        }
        Ok(())
    }

    /// Structural invariants that every reachable tree must satisfy.
    pub fn structural_check(&self) -> Result<(), String> {
        if self.nodes.is_empty() {
            return Err("empty tree".into());
        }
        if self.nodes.len() % 2 == 0 {
            return Err(format!("even node count {}", self.nodes.len()));
        }
        if self.nodes.last().unwrap().is_none() {
            return Err("tree ends in a blank node".into());
        }
        let n = self.n_leaves();
        for x in (1..self.nodes.len() as u32).step_by(2) {
            if let Some(p) = self.parent(x) {
                let (lo, hi) = tm::leaf_range(x);
                let mut prev: Option<u32> = None;
                for &u in &p.unmerged {
                    if u < lo || u >= hi {
                        return Err(format!("parent {x}: unmerged leaf {u} is not below it"));
                    }
                    if self.leaf(u).is_none() {
                        return Err(format!("parent {x}: unmerged leaf {u} is blank"));
                    }
                    if prev.map(|p| p >= u).unwrap_or(false) {
                        return Err(format!("parent {x}: unmerged list not strictly increasing"));
                    }
                    prev = Some(u);
                }
                // an unmerged leaf of P must be unmerged at every non-blank parent between it and P
                for &u in &p.unmerged {
                    for a in tm::direct_path(2 * u, n) {
                        if a == x {
                            break;
                        }
                        if let Some(mid) = self.parent(a) {
                            if !mid.unmerged.contains(&u) {
                                return Err(format!("leaf {u} unmerged at {x} but merged at intermediate parent {a}"));
                            }
                        }
                    }
                }
            }
        }
        // unique keys
        let mut enc: Vec<&[u8]> = self.nodes.iter().flatten().map(|n| n.key()).collect();
        enc.sort();
        if enc.windows(2).any(|w| w[0] == w[1]) {
            return Err("duplicate HPKE public key in tree".into());
        }
        let mut sig: Vec<&[u8]> = self.occupied_leaves().iter().map(|l| &self.leaf(*l).unwrap().signature_key[..]).collect();
        sig.sort();
        if sig.windows(2).any(|w| w[0] == w[1]) {
            return Err("duplicate signature key in tree".into());
        }
        Ok(())
    }

    /// leftmost blank leaf slot (or the next index when the tree is full)
    pub fn leftmost_blank_leaf(&self) -> u32 {
        let mut l = 0;
        while self.leaf(l).is_some() {
            l += 1;
        }
        l
    }

    /// Shape with all key material abstracted away (for state counting).
    pub fn skeleton(&self) -> Vec<u8> {
        let mut out = vec![];
        for n in &self.nodes {
            match n {
                None => out.push(0),
                Some(Node::Leaf(l)) => {
                    out.push(1);
                    out.push(l.source);
                    out.extend(&l.identity);
                    out.push(0xff);
                }
                Some(Node::Parent(p)) => {
                    out.push(2);
                    out.push(p.unmerged.len() as u8);
                    out.extend(p.unmerged.iter().map(|u| *u as u8));
                }
            }
        }
        out
    }
}
