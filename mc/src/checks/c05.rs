//! C05: message keys are single-use -- no (key, nonce) reuse, no replay, reordering tolerated.
//!
//! Three members in one epoch with encrypted handshake messages. Every interleaving (to the
//! depth bound) of {application send by two senders, encrypted proposal by a sender, delivery
//! of any outstanding message to the receiver in any order, write+reload of receiver or
//! sender} is executed; every AEAD seal is recorded by the provider wrapper. Plus scripted
//! boundary scenarios around the 1024-generation window.

use mls_rs::group::proposal::{CustomProposal, ProposalType};
use mls_rs::group::ReceivedMessage;
use mls_rs::MlsMessage;
use serde_json::json;

use super::{bounds_json, default_assumptions, Meta};
use crate::engine::{explore, take_panic, Ctx, Model, Step};
use crate::providers::{log_start, log_take, Rec};
use crate::stores;
use crate::world::*;

const R: usize = 1;

#[derive(Clone, Debug, PartialEq, Eq)]
pub enum Act {
    Send(usize),
    ProposeEnc(usize),
    Deliver(usize),
    ReloadReceiver,
    ReloadSender(usize),
}

#[derive(Clone)]
pub struct Out {
    from: usize,
    app: bool,
    gen: u32,
    msg: MlsMessage,
    payload: Vec<u8>,
    delivered: bool,
}

#[derive(Clone)]
pub struct S {
    w: World,
    out: Vec<Out>,
    /// (sender, is_application, key, nonce) of every content encryption so far
    seals: Vec<(usize, bool, Vec<u8>, Vec<u8>)>,
    app_gen: Vec<u32>,
    hs_gen: Vec<u32>,
}

pub struct M {
    depth: usize,
}

fn content_seals(recs: &[Rec]) -> Vec<(Vec<u8>, Vec<u8>, Vec<u8>)> {
    // (key, nonce, guard): the 4-byte random draw recorded right before the content seal;
    // sender-data encryptions have a 12-byte plaintext (leaf, generation, reuse guard)
    let mut out = vec![];
    let mut last_rand: Vec<u8> = vec![];
    for r in recs {
        match r {
            Rec::Random { bytes, .. } if bytes.len() == 4 => last_rand = bytes.clone(),
            Rec::AeadSeal { key, nonce, pt_len, .. } if *pt_len != 12 => out.push((key.clone(), nonce.clone(), last_rand.clone())),
            _ => {}
        }
    }
    out
}

impl M {
    fn record(&self, s: &mut S, from: usize, app: bool, recs: &[Rec], ctx: &mut Ctx) {
        let cs = content_seals(recs);
        ctx.eval();
        if cs.len() != 1 {
            ctx.note(format!("expected exactly one content encryption per message, saw {}", cs.len()));
        }
        for (key, nonce, guard) in cs {
            if s.seals.iter().any(|(_, _, k, n)| *k == key && *n == nonce) {
                ctx.violation("key-nonce-reuse", format!("{} encrypted two messages with the same AEAD key and nonce", s.w.parties[from].name));
            }
            if s.seals.iter().any(|(f, a, k, _)| *f == from && *a != app && *k == key) {
                ctx.violation("application-and-handshake-share-key", format!("{}: an application and a handshake message were encrypted with the same key", s.w.parties[from].name));
            }
            if s.seals.iter().any(|(f, a, k, _)| *f == from && *a == app && *k == key) {
                ctx.violation("message-key-reused", format!("{}: two messages of one ratchet were encrypted with the same key", s.w.parties[from].name));
            }
            // the reuse guard is drawn fresh and really applied: on a fork of the receiver the
            // ratchet's (key, nonce) of that generation must be (key, nonce ^ guard||0..)
            if app && guard.len() == 4 {
                let gen = s.app_gen[from];
                let mut g = s.w.g(R).clone();
                let leaf = s.w.leaf_of(from);
                if let Ok(mk) = g.derive_decryption_key(2 * leaf, gen) {
                    ctx.eval();
                    let mut expect = mk.nonce().to_vec();
                    for i in 0..4 {
                        expect[i] ^= guard[i];
                    }
                    if mk.key() != &key[..] {
                        ctx.violation("sender-key-differs-from-receiver-ratchet", format!("generation {gen} of {}: sender encrypted with a key the receiver's ratchet does not derive", s.w.parties[from].name));
                    } else if expect != nonce {
                        ctx.violation("reuse-guard-not-applied", format!("generation {gen} of {}: nonce is not ratchet nonce XOR the freshly drawn reuse guard", s.w.parties[from].name));
                    } else {
                        ctx.outcome("reuse-guard:applied");
                    }
                }
            }
            s.seals.push((from, app, key, nonce));
        }
    }

    fn replay_probe(&self, s: &S, ctx: &mut Ctx) {
        for o in s.out.iter().filter(|o| o.delivered) {
            let mut g = s.w.g(R).clone();
            ctx.eval();
            match stores::with_fork(|| g.process_incoming_message_with_time(o.msg.clone(), time(s.w.clock))) {
                Err(_) => ctx.outcome("replay:refused"),
                Ok(_) => ctx.violation(
                    format!("replay-accepted|{}", if o.app { "application" } else { "proposal" }),
                    format!("a ciphertext of {} (generation {}) was accepted a second time", s.w.parties[o.from].name, o.gen),
                ),
            }
        }
    }

    fn act(&self, s: &mut S, a: &Act, ctx: &mut Ctx) -> Step {
        match a.clone() {
            Act::Send(m) => {
                let payload = format!("app {} #{}", m, s.app_gen[m]).into_bytes();
                log_start();
                let r = s.w.send(m, &payload, b"aad");
                let recs = log_take();
                match r {
                    Ok(msg) => {
                        self.record(s, m, true, &recs, ctx);
                        s.out.push(Out { from: m, app: true, gen: s.app_gen[m], msg, payload, delivered: false });
                        s.app_gen[m] += 1;
                        Step::Continue
                    }
                    Err(e) => {
                        ctx.outcome(format!("send-err:{}", err_name(&e)));
                        Step::Stop
                    }
                }
            }
            Act::ProposeEnc(m) => {
                let data = vec![s.hs_gen[m] as u8];
                log_start();
                let r = s.w.gm(m).propose_custom(CustomProposal::new(ProposalType::new(CUSTOM_PROP), data.clone()), vec![]);
                let recs = log_take();
                match r {
                    Ok(msg) => {
                        self.record(s, m, false, &recs, ctx);
                        s.out.push(Out { from: m, app: false, gen: s.hs_gen[m], msg, payload: data, delivered: false });
                        s.hs_gen[m] += 1;
                        Step::Continue
                    }
                    Err(e) => {
                        ctx.outcome(format!("propose-err:{}", err_name(&e)));
                        Step::Stop
                    }
                }
            }
            Act::Deliver(i) => {
                let o = s.out[i].clone();
                ctx.eval();
                match s.w.process(R, &o.msg) {
                    Ok(ReceivedMessage::ApplicationMessage(d)) if o.app => {
                        if d.data() != &o.payload[..] || d.sender_index != s.w.leaf_of(o.from) {
                            ctx.violation("delivered-content-differs", "an application message was decrypted to other content / sender");
                        }
                        ctx.outcome("deliver:application-ok");
                    }
                    Ok(ReceivedMessage::Proposal(_)) if !o.app => ctx.outcome("deliver:proposal-ok"),
                    Ok(_) => ctx.violation("delivered-wrong-kind", "message reported as another kind"),
                    Err(e) => {
                        ctx.violation(
                            format!("first-delivery-refused|{}|{}", if o.app { "application" } else { "proposal" }, err_name(&e)),
                            format!("the first delivery of generation {} of {} (out of order within the window) was refused: {e:?}", o.gen, s.w.parties[o.from].name),
                        );
                        return Step::Stop;
                    }
                }
                s.out[i].delivered = true;
                if s.out.iter().filter(|x| x.from == o.from && x.app == o.app && !x.delivered && x.gen < o.gen).count() > 0 {
                    ctx.goal("out-of-order-delivery");
                }
                self.replay_probe(s, ctx);
                Step::Continue
            }
            Act::ReloadReceiver | Act::ReloadSender(_) => {
                let p = if let Act::ReloadSender(m) = a { *m } else { R };
                if let Err(e) = s.w.gm(p).write_to_storage() {
                    ctx.violation(format!("write-failed|{}", err_name(&e)), format!("{e:?}"));
                    return Step::Stop;
                }
                let gid = s.w.group_id.clone();
                match s.w.parties[p].client.load_group(&gid) {
                    Ok(g) => s.w.parties[p].group = Some(g),
                    Err(e) => {
                        ctx.violation(format!("load-failed|{}", err_name(&e)), format!("{e:?}"));
                        return Step::Stop;
                    }
                }
                ctx.goal("reload-mid-stream");
                if p == R {
                    self.replay_probe(s, ctx);
                }
                Step::Continue
            }
        }
    }
}

fn seed_world() -> World {
    let cfg = WorldCfg { encrypt_handshake: true, padding: 1, ..Default::default() };
    let mut w = World::new(cfg, 3);
    let r = w.run(|w| {
        w.create(0)?;
        let b = w.commit(0, &CommitSpec { props: vec![Prop::Add(1), Prop::Add(2)], ..Default::default() })?;
        w.apply(0)?;
        for p in [1, 2] {
            w.join(p, &b.out.welcome_messages[0], None)?;
        }
        Ok::<(), mls_rs::error::MlsError>(())
    });
    if !matches!(r, Ok(Ok(()))) {
        crate::engine::machinery("C05 seed could not be built");
    }
    w
}

impl Model for M {
    type S = S;
    type A = Act;

    fn seeds(&self, _ctx: &mut Ctx) -> Vec<(String, S)> {
        vec![("three-members-encrypted-handshake".into(), S { w: seed_world(), out: vec![], seals: vec![], app_gen: vec![0; 3], hs_gen: vec![0; 3] })]
    }

    fn depth(&self, _seed: usize) -> usize {
        self.depth
    }

    fn actions(&self, s: &S, _depth: usize) -> Vec<Act> {
        let mut v = vec![Act::Send(0), Act::Send(2), Act::ProposeEnc(0)];
        for (i, o) in s.out.iter().enumerate() {
            if !o.delivered {
                v.push(Act::Deliver(i));
            }
        }
        if !s.out.is_empty() {
            v.push(Act::ReloadReceiver);
            v.push(Act::ReloadSender(0));
        }
        v
    }

    fn step(&self, s: &mut S, a: &Act, ctx: &mut Ctx) -> Step {
        let table = std::mem::take(&mut s.w.stores);
        stores::install(table);
        let r = std::panic::catch_unwind(std::panic::AssertUnwindSafe(|| self.act(s, a, ctx)));
        s.w.stores = stores::uninstall();
        match r {
            Ok(step) => {
                let mut shape: Vec<u8> = s.out.iter().flat_map(|o| [o.from as u8, o.app as u8, o.gen as u8, o.delivered as u8]).collect();
                shape.push(0xff);
                ctx.shape(crate::engine::fnv(&shape));
                step
            }
            Err(_) => {
                let _ = log_take();
                let (loc, msg, lib) = take_panic();
                if lib {
                    ctx.violation(format!("panic|{loc}"), format!("library panicked during {a:?}: {msg}"));
                    Step::Stop
                } else {
                    crate::engine::machinery(&format!("harness panic at {loc}: {msg}"))
                }
            }
        }
    }
}

/// Sender skips `gap` generations (messages never delivered, except two kept ones), then one
/// more message arrives: accepted iff gap <= 1024; kept ones stay decryptable.
fn window_boundary(gap: u32, reload: bool, ctx: &mut Ctx) {
    let mut w = seed_world();
    ctx.cur_trail = vec![format!("window boundary: gap {gap}, reload {reload}")];
    ctx.path = vec![];
    let r = w.run(|w| {
        let mut kept: Vec<(u32, MlsMessage)> = vec![];
        for g in 0..gap {
            let Ok(m) = w.send(0, format!("skipped {g}").as_bytes(), b"") else { return };
            if g == 0 || g + 1 == gap || g == gap / 2 {
                kept.push((g, m));
            }
        }
        let Ok(far) = w.send(0, b"far ahead", b"") else { return };
        if reload {
            let _ = w.gm(R).write_to_storage();
            let gid = w.group_id.clone();
            if let Ok(g) = w.parties[R].client.load_group(&gid) {
                w.parties[R].group = Some(g);
            }
        }
        ctx.eval();
        let r = w.process(R, &far);
        let must_accept = gap <= 1024;
        match (&r, must_accept) {
            (Ok(_), true) => ctx.outcome(format!("gap-{gap}:accepted")),
            (Err(e), false) => ctx.outcome(format!("gap-{gap}:refused:{}", err_name(e))),
            (Ok(_), false) => ctx.violation("message-beyond-window-accepted", format!("a message {gap} generations ahead was accepted (documented window: 1024)")),
            (Err(e), true) => ctx.violation(format!("message-inside-window-refused|{}", err_name(e)), format!("a message {gap} generations ahead was refused: {e:?}")),
        }
        // the skipped ones remain decryptable, each exactly once, in any order (reverse here)
        for (g, m) in kept.iter().rev() {
            ctx.eval();
            match w.process(R, m) {
                Ok(_) => ctx.outcome("skipped-generation:decrypts"),
                Err(e) => ctx.violation(format!("skipped-generation-lost|{}", err_name(&e)), format!("generation {g} (skipped by a message {gap} ahead, accepted={}) can no longer be decrypted: {e:?}", r.is_ok())),
            }
            let mut gr = w.g(R).clone();
            if gr.process_incoming_message_with_time(m.clone(), time(w.clock)).is_ok() {
                ctx.violation("replay-accepted|application", format!("generation {g} was accepted twice"));
            }
        }
        if !must_accept {
            // after the earlier generations arrived the far one is now inside the window
            ctx.eval();
            if gap - kept.len() as u32 <= 1024 {
                // (only generation 0 etc. were consumed; the ratchet position moved to where the last kept one was)
            }
        }
        ctx.goal("window-boundary");
    });
    if r.is_err() {
        let (loc, msg, lib) = take_panic();
        if lib {
            ctx.violation(format!("panic|{loc}"), msg);
        } else {
            crate::engine::machinery(&format!("harness panic at {loc}: {msg}"));
        }
    }
    ctx.report.traces += 1;
    ctx.report.transitions += gap as u64 + 1;
}

fn depth(tier: &str) -> usize {
    if tier == "quick" {
        8
    } else {
        10
    }
}

pub fn meta(tier: &str) -> Meta {
    Meta {
        level: "model_checking",
        rule: "three real members, one epoch, encrypted handshake: every interleaving up to the depth bound of application sends by two senders, an encrypted proposal, delivery of any outstanding message in any order, write+reload of receiver or sender; oracles: every content AEAD seal recorded by the provider wrapper has a (key, nonce) never used before, application and handshake keys of a sender are disjoint, the sender's key equals the receiver's ratchet key of that generation and nonce = ratchet nonce XOR the freshly drawn 4-byte reuse guard; every first delivery succeeds with the right content; after every delivery and reload every already delivered ciphertext is re-offered on a fork and must be refused; plus the 1024-generation window boundary (gaps 1, 2, 1023, 1024, 1025, with and without reload); plus one message in each of three consecutive past epochs delivered late in all 6 orders x 16 write patterns of the receiver x reload, each re-offered after every delivery and after another write + reload (must decrypt exactly once); a state = (per message: sender, ratchet, generation, delivered)".into(),
        assumptions: {
            let mut a = default_assumptions();
            a.push("a rollback of the sender (crash with unwritten sends) reuses generations by design and is protected only by the 32-bit reuse guard; the check verifies the guard is drawn and applied, not that 32 random bits never collide".into());
            a
        },
        bounds: bounds_json(&[("depth", json!(depth(tier))), ("senders", json!(2)), ("window_gaps", json!([1, 2, 1023, 1024, 1025]))]),
        required_goals: vec!["out-of-order-delivery", "reload-mid-stream", "window-boundary", "prior-epoch-replays"],
        min_outcomes: 5,
        workers: 16,
    }
}

pub fn run(ctx: &mut Ctx) {
    let m = M { depth: depth(&ctx.tier.clone()) };
    ctx.model_idx = 0;
    explore(&m, ctx);
    ctx.model_idx = 99;
    let mut item = 0;
    for gap in [1u32, 2, 1023, 1024, 1025] {
        for reload in [false, true] {
            if ctx.mine(item) {
                window_boundary(gap, reload, ctx);
            }
            item += 1;
        }
    }
    // messages of several PAST epochs, delivered late in every order, each re-offered afterwards
    for writes in 0u32..16 {
        for order in 0..6usize {
            for reload in [false, true] {
                if ctx.mine(item) {
                    prior_epoch_replays(writes, order, reload, ctx);
                }
                item += 1;
            }
        }
    }
}

/// The sender sends one application message in each of three consecutive epochs; the receiver
/// gets them only after the third commit, in the given order (one of the 6 permutations), having
/// called write_to_storage after the commits selected by `writes` (bit 3: before the first) and,
/// optionally, having been reloaded. Each message must decrypt exactly once: after all three
/// were delivered every one of them is offered again, directly and after another write+reload.
fn prior_epoch_replays(writes: u32, order: usize, reload: bool, ctx: &mut Ctx) {
    const PERMS: [[usize; 3]; 6] = [[0, 1, 2], [0, 2, 1], [1, 0, 2], [1, 2, 0], [2, 0, 1], [2, 1, 0]];
    let mut w = seed_world();
    ctx.cur_trail = vec![format!("late messages of three past epochs: order {:?}, writes {writes:#06b}, reload {reload}", PERMS[order])];
    ctx.path = vec![];
    let r = w.run(|w| {
        if writes & 8 != 0 {
            let _ = w.gm(R).write_to_storage();
        }
        let mut msgs = vec![];
        for i in 0..3 {
            let Ok(m) = w.send(0, format!("message of epoch +{i}").as_bytes(), b"") else { return };
            msgs.push(m);
            let Ok(b) = w.commit(2, &CommitSpec::default()) else { return };
            for p in [0usize, R] {
                if w.process(p, &b.out.commit_message).is_err() {
                    return;
                }
            }
            if w.apply(2).is_err() {
                return;
            }
            if writes & (1 << i) != 0 {
                let _ = w.gm(R).write_to_storage();
            }
        }
        if reload {
            let _ = w.gm(R).write_to_storage();
            let gid = w.group_id.clone();
            match w.parties[R].client.load_group(&gid) {
                Ok(g) => w.parties[R].group = Some(g),
                Err(_) => return,
            }
        }
        // retention of the default configuration is 3: every one of the three epochs is retained
        let mut delivered = vec![];
        for &i in &PERMS[order] {
            ctx.eval();
            match w.process(R, &msgs[i]) {
                Ok(ReceivedMessage::ApplicationMessage(d)) if d.data() == format!("message of epoch +{i}").as_bytes() => {
                    ctx.outcome("late-prior-epoch:decrypts");
                    delivered.push(i);
                }
                Ok(_) => ctx.violation("late-message-wrong-content", format!("message of past epoch +{i} decrypted to something else")),
                Err(e) => ctx.violation(format!("late-message-of-retained-epoch-refused|{}", err_name(&e)), format!("message of past epoch +{i} refused although 3 epochs are retained: {e:?}")),
            }
            // everything delivered so far is offered again right away
            for &j in &delivered {
                ctx.eval();
                if w.process(R, &msgs[j]).is_ok() {
                    ctx.violation("replay-accepted|application-of-prior-epoch", format!("the message of past epoch +{j} was accepted a second time (after delivering +{i})"));
                } else {
                    ctx.outcome("late-prior-epoch:replay-refused");
                }
            }
        }
        // and once more after the receiver persisted and came back
        let _ = w.gm(R).write_to_storage();
        let gid = w.group_id.clone();
        if let Ok(g) = w.parties[R].client.load_group(&gid) {
            w.parties[R].group = Some(g);
            for &j in &delivered {
                ctx.eval();
                if w.process(R, &msgs[j]).is_ok() {
                    ctx.violation("replay-accepted|application-of-prior-epoch-after-reload", format!("the message of past epoch +{j} was accepted again after write + reload"));
                } else {
                    ctx.outcome("late-prior-epoch:replay-refused-after-reload");
                }
            }
        }
        ctx.goal("prior-epoch-replays");
    });
    if r.is_err() {
        let (loc, msg, lib) = take_panic();
        if lib {
            ctx.violation(format!("panic|{loc}"), msg);
        } else {
            crate::engine::machinery(&format!("harness panic at {loc}: {msg}"));
        }
    }
    ctx.report.traces += 1;
    ctx.report.transitions += 9;
}

pub fn replay(ctx: &mut Ctx, path: &[usize]) {
    if path[0] == 99 {
        for gap in [1u32, 2, 1023, 1024, 1025] {
            for reload in [false, true] {
                window_boundary(gap, reload, ctx);
            }
        }
        return;
    }
    let m = M { depth: depth(&ctx.tier.clone()) };
    crate::engine::replay(&m, ctx, &path[1..]);
}
