//! C01, C02, C07, C08, C09: oracles on the shared group-history exploration.

use serde_json::json;

use super::history::{Alphabet, HistoryModel, Monitors};
use super::{bounds_json, default_assumptions, Meta};
use crate::engine::{explore, Ctx};
use crate::providers::Which;
use crate::world::WorldCfg;

fn monitors(id: &str) -> Monitors {
    let mut m = Monitors::default();
    match id {
        "C01" => m.decrypt = true,
        "C02" => {
            m.recipients = true;
            m.ghosts = true;
        }
        "C07" => {
            m.joiner = true;
            m.decrypt = true;
        }
        "C08" => {
            m.tree = true;
            m.observer = true;
        }
        "C09" => m.privkeys = true,
        "C04" => m.reject = true,
        "C16" => m.external = true,
        _ => {}
    }
    m
}

fn alt_cfg() -> WorldCfg {
    WorldCfg { tree_ext: false, single_welcome: false, path_required: true, encrypt_handshake: true, padding: 1, ..Default::default() }
}

/// The list of (model, label) explored for a property and tier.
pub fn models(id: &str, tier: &str) -> Vec<HistoryModel> {
    let quick = tier == "quick";
    let mon = monitors(id);
    let alphabet = if id == "C08" { Alphabet::TreeShaping } else { Alphabet::Full };
    let mut v = vec![];
    let base = |cfgs: Vec<WorldCfg>, di: usize, dg: usize, seeds: Vec<&'static str>, all_proposers: bool| HistoryModel {
        cfgs,
        mon: mon.clone(),
        n_parties: 5,
        depth_initial: di,
        depth_gallery: dg,
        alphabet: alphabet.clone(),
        seeds,
        all_proposers,
        max_deviations: 0,
    };
    if id == "C04" {
        // the probe costs ~100 real deliveries per member and state: one level less than C01
        if quick {
            v.push(base(vec![WorldCfg::default()], 2, 1, vec!["S0", "S2", "S4", "S8"], false));
            v.push(base(vec![alt_cfg()], 2, 0, vec!["S0"], false));
        } else {
            v.push(base(vec![WorldCfg::default()], 3, 2, vec![], false));
            v.push(base(vec![alt_cfg()], 3, 1, vec!["S0", "S3", "S4", "S8"], false));
        }
        return v;
    }
    if id == "C16" {
        // public handshake messages, external senders extension in the group context
        let pub_cfg = WorldCfg { external_senders: true, ..Default::default() };
        let pub_cfg2 = WorldCfg { external_senders: true, tree_ext: false, path_required: true, ..Default::default() };
        if quick {
            v.push(base(vec![pub_cfg], 3, 1, vec!["S0", "S2", "S3", "S4", "S8"], false));
            v.push(base(vec![pub_cfg2], 2, 1, vec!["S0", "S3"], false));
        } else {
            v.push(base(vec![pub_cfg], 4, 2, vec![], false));
            v.push(base(vec![pub_cfg2], 3, 2, vec!["S0", "S3", "S4", "S8", "S10"], false));
        }
        return v;
    }
    if quick {
        v.push(base(vec![WorldCfg::default()], 3, 2, vec![], false));
        v.push(base(vec![alt_cfg()], 3, 1, vec!["S0", "S3", "S4", "S8", "S10", "S11"], false));
    } else {
        v.push(base(vec![WorldCfg::default()], 4, 3, vec![], true));
        // every commit-option combination
        let mut cfgs = vec![];
        for bits in 0..16u8 {
            cfgs.push(WorldCfg {
                tree_ext: bits & 1 != 0,
                single_welcome: bits & 2 != 0,
                path_required: bits & 4 != 0,
                encrypt_handshake: bits & 8 != 0,
                padding: bits % 3,
                ..Default::default()
            });
        }
        v.push(base(cfgs, 3, 1, vec!["S0", "S3", "S4", "S6", "S8", "S10", "S11"], false));
        // suites x providers, and provider mixes
        let mut cfgs = vec![];
        for (suite, provs) in [
            (1u16, vec![Which::Ossl]),
            (1, vec![Which::Awslc]),
            (2, vec![Which::Rust]),
            (2, vec![Which::Ossl]),
            (2, vec![Which::Awslc]),
            (3, vec![Which::Rust]),
            (3, vec![Which::Ossl]),
            (3, vec![Which::Awslc]),
            (5, vec![Which::Ossl]),
            (5, vec![Which::Awslc]),
            (7, vec![Which::Ossl]),
            (7, vec![Which::Awslc]),
            (4, vec![Which::Ossl]),
            (6, vec![Which::Ossl]),
            (1, vec![Which::Rust, Which::Ossl]),
            (1, vec![Which::Ossl, Which::Awslc]),
            (1, vec![Which::Rust, Which::Ossl, Which::Awslc]),
            (2, vec![Which::Awslc, Which::Rust, Which::Ossl]),
            (3, vec![Which::Ossl, Which::Awslc, Which::Rust]),
            (7, vec![Which::Ossl, Which::Awslc]),
        ] {
            cfgs.push(WorldCfg { suite, providers: provs, ..Default::default() });
        }
        v.push(base(cfgs, 2, 1, vec!["S0", "S3", "S8"], false));
    }
    // eight-member trees (three levels below the root on both sides)
    let big = |cfgs: Vec<WorldCfg>, dg: usize, seeds: Vec<&'static str>| HistoryModel {
        cfgs,
        mon: mon.clone(),
        n_parties: 9,
        depth_initial: dg,
        depth_gallery: dg,
        alphabet: alphabet.clone(),
        seeds,
        all_proposers: false,
        max_deviations: 0,
    };
    if quick {
        v.push(big(vec![WorldCfg::default()], 2, vec!["S13", "S16"]));
        v.push(big(vec![WorldCfg::default()], 1, vec!["S12", "S14"]));
        v.push(big(vec![alt_cfg()], 1, vec!["S12", "S13", "S14", "S16"]));
    } else {
        v.push(big(vec![WorldCfg::default(), alt_cfg()], 2, vec!["S12", "S13", "S14", "S16"]));
    }
    // deviating rounds (K >= 1): a member races with a commit of its own and loses; the
    // committer gets its own commit back instead of applying it
    v.extend(deviation_models(id, tier));
    v
}

/// History models with deviation bound K >= 1 (also run by C11, which owns the pending-commit
/// rules the deviations exercise).
pub fn deviation_models(id: &str, tier: &str) -> Vec<HistoryModel> {
    let quick = tier == "quick";
    let mon = if id == "C11" { Monitors { decrypt: true, ..Default::default() } } else { monitors(id) };
    let alphabet = if id == "C08" { Alphabet::TreeShaping } else { Alphabet::Full };
    let dev = |cfgs: Vec<WorldCfg>, di: usize, dg: usize, seeds: Vec<&'static str>, k: u8| HistoryModel {
        cfgs,
        mon: mon.clone(),
        n_parties: 5,
        depth_initial: di,
        depth_gallery: dg,
        alphabet: alphabet.clone(),
        seeds,
        all_proposers: false,
        max_deviations: k,
    };
    if quick {
        vec![dev(vec![WorldCfg::default()], 3, 1, vec![], 1), dev(vec![alt_cfg()], 2, 1, vec!["S0", "S3", "S4", "S8"], 1)]
    } else {
        vec![dev(vec![WorldCfg::default()], 3, 2, vec![], 2), dev(vec![alt_cfg()], 3, 1, vec!["S0", "S3", "S4", "S8", "S10"], 2)]
    }
}

pub fn meta(id: &str, tier: &str) -> Meta {
    let ms = models(id, tier);
    let bounds = bounds_json(&[
        ("identities", json!("5 (9 in the runs from the eight- and nine-member seeds S12, S13, S14, S16)")),
        (
            "runs",
            json!(ms
                .iter()
                .map(|m| json!({
                    "configs": m.cfgs.iter().map(|c| c.label()).collect::<Vec<_>>(),
                    "depth_from_initial_group": m.depth_initial,
                    "depth_from_gallery_seeds": m.depth_gallery,
                    "seeds": if m.seeds.is_empty() { vec!["S0..S11"] } else { m.seeds.clone() },
                    "all_members_propose": m.all_proposers,
                    "deviation_bound_K": m.max_deviations,
                }))
                .collect::<Vec<_>>()),
        ),
        ("deviations", json!(ms.iter().map(|m| m.max_deviations).max().unwrap_or(0))),
    ]);
    let deviating = ms.iter().any(|m| m.max_deviations > 0);
    let (rule, goals): (&str, Vec<&'static str>) = match id {
        "C01" => ("every sequence of rounds (commit with by-value add/remove/psk/gce/custom/rekey, by-reference proposals, external commit with and without resync) up to the depth bound from every seed is executed on real members; after every accepted commit all members' (context, roster, exported tree, epoch authenticator, two exports) are compared through the epoch ledger and every ordered pair decrypts on forks; a distinct case = a distinct world shape (membership, tree skeleton, epochs, cached proposals)", vec!["commit-without-path", "tree-shrank", "tree-grew", "unmerged-leaf-under-parent", "interior-blank-leaf", "external-commit", "add-into-interior-blank"]),
        "C02" => ("same traversal; every HPKE seal recorded by the committer's provider while a commit is built must go to a key in the new tree's copath resolutions (reference parser) minus leaves added now, or to an added key package's init key; every message of every later round plus fresh application/proposal/commit traffic is offered to every retained ex-member state (processed its removal / never saw it) and every Welcome to every outsider: must be rejected; ex-members' authenticator/export compared with every later ledger entry; every commit that applies an Update, Remove, ExternalInit or GroupContextExtensions proposal, or none at all, must carry an update path (RFC 9420 12.4: otherwise the commit secret is zero and a removed member can derive the new epoch)", vec!["commit-with-path-secrets", "interior-blank-leaf", "commit-with-required-path"]),
        "C07" => ("same traversal; every Welcome / external-commit joiner is ledger-compared with the members, its key package must still be stored before and be gone after its first write_to_storage (fork), and its first commit must be accepted by all (fork); plus (checks/c07x.rs) the mismatch matrix in 4 configurations -- Welcome for another party, tree of the previous epoch / of another group / with one bit altered / missing, Welcome of another group, altered Welcome, joiner without the key package that was used, the same Welcome after the joiner persisted (also when that first persist met a storage failure at each of its calls in turn and was retried: the key package must then be gone and the Welcome refused), external commit from the previous epoch's GroupInfo: refused, joiner's three stores and the members unchanged, the right Welcome still works; a key package marked last-resort survives the joiner's write and serves a second group; the shipped in-memory and SQLite key-package stores answer like a map for every sequence of <= 4 (thorough 6) insert / get / delete operations over two ids -- and the re-join scenarios: every subset of 3 write points x 3 ways of leaving x 0..2 commits while away x re-entry by Welcome from two members or by external commit x 3 kinds of next commit (x retention x tree delivery in thorough), the same party keeping all three stores must join, persist, follow the next commit, persist, reload, send and commit", vec!["external-commit", "add-into-interior-blank", "matrix-refusal", "matrix-second-join-refused", "matrix-first-persist-retried", "matrix-stale-groupinfo", "matrix-last-resort", "key-package-store-sequences", "rejoin-with-stale-records", "rejoin-without-stale-records"]),
        "C08" => ("same traversal; after every commit every member's own exported tree is parsed by the independent reference parser: tree hash from scratch == GroupContext.tree_hash, parent-hash chains valid (reference implementation of RFC 9420 7.9.2), unmerged lists sorted/consistent, no trailing blank, unique keys, new leaves leftmost; one copy per round is validated by a fresh ExternalClient::observe_group", vec!["tree-shrank", "tree-grew", "unmerged-leaf-under-parent", "interior-blank-leaf", "add-into-interior-blank"]),
        "C04" => ("history traversal (one level less deep than C01); in every reached state and for every member: one mutant per framing region (first/last/middle byte bit flips, truncations at field boundaries) of every genuine message deliverable to it (application, proposal, commit, commit with add; public and private wire formats), previous-epoch messages, commits referencing a proposal / PSK / identity the member cannot resolve, and six operations the member fails to build; every storage call made while processing each genuine message fails once (provider error); with an own Update outstanding and an own commit pending, apply_pending_commit and the echo of the own commit with every storage call failing once; each on a fork: Err => complete state (hook H1, effective view) unchanged, genuine message afterwards => state equal to a twin's, next send accepted by a peer", vec!["commit-with-unknown-proposal-ref", "psk-commit-m-lacks-psk", "commit-identity-rejected-by-m", "late-failure-at-confirmation-tag", "storage-fault-while-processing", "storage-fault-in-local-operation"]),
        "C16" => ("history traversal with public handshake messages and an ExternalSendersExt in the group context; observers are created with ExternalClient::observe_group at every epoch with max_epoch_jitter in {unset, 0, 1, epoch-1, epoch, epoch+1, u64::MAX}; every commit/proposal the members accept is given to every observer (must be accepted; context, roster and exported tree must then equal the members'), every second observer is replaced by snapshot -> load_group after every commit and every third one after every proposal (while it holds cached proposals), re-init commits are part of the alphabet, a copy of every commit with one signature bit flipped and a replay of every commit must be refused, an observer created after a proposal was sent must refuse the commit that references it, application ciphertexts of the last 5 epochs are offered to every observer (let through iff epoch >= current - jitter, saturating; never a panic), the oldest observer issues external Remove / Add proposals that members must accept and commit, an outsider sends new-member Add proposals (Client::external_add_proposal), and one observer built with cache_proposals(false) keeps every reported proposal outside as ProposalMessageDescription::cached_proposal().to_bytes() and re-inserts it with insert_proposal before the next commit, which it must then follow", vec!["observer-reloaded", "observer-reloaded-with-cached-proposal", "external-sender-proposal", "observer-lacks-referenced-proposal", "new-member-proposal", "stateless-observer-follows-by-reference-commit"]),
        "C09" => ("same traversal; after every commit, for every member each stored private key must open an HPKE seal to the public key of the corresponding node of the exported tree (reference parser), no key for a blank node, and after a commit with path all non-blank nodes on the committer's direct path carry keys absent from the previous tree; and whenever a member's own leaf private key changes (own commit with path, own Update applied) the old private key no longer occurs anywhere in the state the member would store (byte search over the encoded snapshot)", vec!["commit-without-path", "interior-blank-leaf", "unmerged-leaf-under-parent", "leaf-key-replaced"]),
        _ => ("", vec![]),
    };
    let mut rule = rule.to_string();
    let mut goals = goals;
    if matches!(id, "C01" | "C07" | "C08" | "C09") {
        rule.push_str("; after every epoch change one member (rotating) is additionally written to storage and loaded again on a fork, and the reloaded copy must show the same observable epoch state (and, for C08 / C09, pass the tree / private-key oracles)");
        goals.push("reloaded-copy");
    }
    if deviating {
        rule.push_str("; the runs with deviation bound K > 0 additionally take, at up to K rounds per path, a deviating round: another member first builds a commit of its own (with and without an Add) that stays pending and then receives the winning commit (its pending commit must be gone, everything else as in a normal round), or the committer receives its own commit back from the delivery service instead of calling apply_pending_commit");
        goals.push("race");
        goals.push("echo");
    }
    Meta {
        level: "model_checking",
        rule,
        assumptions: default_assumptions(),
        bounds,
        required_goals: goals,
        min_outcomes: 3,
        workers: 16,
    }
}

pub fn run(id: &str, ctx: &mut Ctx) {
    for (i, m) in models(id, &ctx.tier.clone()).into_iter().enumerate() {
        ctx.model_idx = i;
        explore(&m, ctx);
    }
    if id == "C07" {
        ctx.model_idx = 100;
        super::c07x::run(ctx);
    }
}

pub fn replay(id: &str, ctx: &mut Ctx, path: &[usize]) {
    // path[0] selects the model run, the rest is the explorer path
    let ms = models(id, &ctx.tier.clone());
    let Some(m) = ms.get(path[0]) else { crate::engine::machinery("bad model index in replay path") };
    crate::engine::replay(m, ctx, &path[1..]);
}
