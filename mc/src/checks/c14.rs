//! C14: the shipped crypto providers are interchangeable.
//!
//! For every pair of shipped providers and every suite both support: deterministic primitives
//! are byte-equal over a grid of input lengths; randomised ones interoperate in both directions
//! (sign/verify, HPKE seal/open, setup_s/setup_r + export, base and PSK mode); malformed inputs
//! (wrong lengths, all-zero / low-order / off-curve keys, flipped tags) get the same verdict;
//! members on different providers form one working group (every assignment of providers to
//! four parties, short histories); the three X.509 validators give the same and the correct
//! verdict on generated certificate chains.

use mls_rs::{CipherSuite, CipherSuiteProvider};
use mls_rs_core::crypto::{HpkePsk, HpkePublicKey, HpkeSecretKey, SignaturePublicKey, SignatureSecretKey};
use mls_rs_core::crypto::{HpkeContextR, HpkeContextS};
use mls_rs_core::identity::CertificateChain;
use mls_rs_identity_x509::X509CredentialValidator;
use serde_json::json;

use super::history::{Alphabet, HistoryModel, Monitors};
use super::{bounds_json, Meta};
use crate::engine::{explore, take_panic, Ctx};
use crate::oracles::hex;
use crate::providers::{cs_provider, DynCs, Which};
use crate::world::*;

const LENS: [usize; 19] = [0, 1, 15, 16, 17, 31, 32, 33, 63, 64, 65, 127, 128, 129, 255, 256, 1024, 1025, 4097];

/// quick: block-boundary lengths; thorough: every length up to 272 and the larger boundaries
fn lens(quick: bool) -> Vec<usize> {
    if quick {
        LENS.to_vec()
    } else {
        (0..=272).chain([511, 512, 513, 1023, 1024, 1025, 4095, 4096, 4097, 32767, 32768, 32769, 65535, 65536]).collect()
    }
}

fn pat(len: usize, k: u8) -> Vec<u8> {
    (0..len).map(|i| (i as u8).wrapping_mul(31).wrapping_add(k)).collect()
}

fn common_suites(a: Which, b: Which) -> Vec<u16> {
    use mls_rs::CryptoProvider;
    let s = |w: Which| -> Vec<u16> { crate::providers::DynProvider::new(w, u32::MAX).supported_cipher_suites().into_iter().map(u16::from).collect() };
    let sb = s(b);
    s(a).into_iter().filter(|x| sb.contains(x)).collect()
}

/// The pair under comparison (provider a, provider b, suite); part of every violation signature.
static PAIR: std::sync::Mutex<(String, String, u16)> = std::sync::Mutex::new((String::new(), String::new(), 0));

/// The algorithm of `suite` that the primitive `what` runs on: suites sharing it share code, so
/// a divergence is identified by (primitive, algorithm, who accepts, input class).
fn alg(what: &str, suite: u16) -> &'static str {
    let i = (suite as usize).clamp(1, 7) - 1;
    if what.starts_with("sign") || what.starts_with("verify") {
        ["ed25519", "p256", "ed25519", "ed448", "p521", "ed448", "p384"][i]
    } else if what.starts_with("kem") || what.starts_with("hpke") {
        ["x25519", "p256", "x25519", "x448", "p521", "x448", "p384"][i]
    } else if what.starts_with("aead") {
        ["aes128gcm", "aes128gcm", "chacha20poly1305", "aes256gcm", "aes256gcm", "chacha20poly1305", "aes256gcm"][i]
    } else {
        ["sha256", "sha256", "sha256", "sha512", "sha512", "sha512", "sha384"][i]
    }
}

fn same<T: PartialEq + std::fmt::Debug>(ctx: &mut Ctx, what: &str, case: &str, a: &Result<T, String>, b: &Result<T, String>) {
    ctx.eval();
    let (an, bn, suite) = PAIR.lock().unwrap().clone();
    // the class of the input: the case text without the pair prefix
    let class = case.split_once(", ").map(|x| x.1).unwrap_or("");
    let alg = alg(what, suite);
    match (a, b) {
        (Ok(x), Ok(y)) if x == y => ctx.outcome(format!("{what}:equal")),
        (Err(_), Err(_)) => ctx.outcome(format!("{what}:both-reject")),
        (Ok(_), Ok(_)) => ctx.violation(format!("providers-differ|{what}|{alg}|{an} and {bn} return different bytes|{class}"), format!("{what} differs for {case}")),
        _ => {
            let (acc, rej, err) = if a.is_ok() { (&an, &bn, b.as_ref().err()) } else { (&bn, &an, a.as_ref().err()) };
            ctx.violation(format!("providers-differ|{what}|{alg}|{acc} accepts, {rej} rejects|{class}"), format!("{what}: {acc} accepts and {rej} rejects for {case}: {}", err.cloned().unwrap_or_default()))
        }
    }
}

/// A value produced by one provider must be consumed by the other with the expected result.
fn expect<T: PartialEq + std::fmt::Debug>(ctx: &mut Ctx, what: &str, case: &str, got: &Result<T, String>, want: &T) {
    ctx.eval();
    let (_, _, suite) = PAIR.lock().unwrap().clone();
    let class = case.split_once(", ").map(|x| x.1).unwrap_or("");
    match got {
        Ok(g) if g == want => ctx.outcome(format!("{what}:interoperates")),
        Ok(_) => ctx.violation(format!("no-interop|{what}|{}|wrong result|{class}", alg(what, suite)), format!("{what}: wrong result for {case}")),
        Err(err) => ctx.violation(format!("no-interop|{what}|{}|rejected|{class}", alg(what, suite)), format!("{what}: rejected for {case}: {err}")),
    }
}

fn e<T, E: std::fmt::Debug>(r: Result<T, E>) -> Result<T, String> {
    r.map_err(|x| format!("{x:?}"))
}

fn pair(a: Which, b: Which, suite: u16, ctx: &mut Ctx) {
    let (Some(ca), Some(cb)) = (cs_provider(a, CipherSuite::new(suite)), cs_provider(b, CipherSuite::new(suite))) else { return };
    let tag = format!("{}/{} suite {suite}", a.name(), b.name());
    *PAIR.lock().unwrap() = (a.name().to_string(), b.name().to_string(), suite);
    ctx.cur_trail = vec![tag.clone()];
    let nk = ca.aead_key_size();
    let nn = ca.aead_nonce_size();
    let nh = ca.kdf_extract_size();
    ctx.eval();
    if (nk, nn, nh) != (cb.aead_key_size(), cb.aead_nonce_size(), cb.kdf_extract_size()) {
        ctx.violation("providers-differ|sizes", format!("{tag}: AEAD/KDF sizes differ"));
    }
    // ---- deterministic primitives over the length grid
    for &n in &lens(ctx.quick()) {
        let d = pat(n, 7);
        let case = format!("{tag}, input length {n}");
        same(ctx, "hash", &case, &e(ca.hash(&d)), &e(cb.hash(&d)));
        for &kl in &[0usize, 1, nh, nh + 1] {
            same(ctx, "mac", &format!("{case}, key length {kl}"), &e(ca.mac(&pat(kl, 3), &d)), &e(cb.mac(&pat(kl, 3), &d)));
        }
        same(ctx, "kdf_extract", &case, &e(ca.kdf_extract(&d, &pat(nh, 1)).map(|z| z.to_vec())), &e(cb.kdf_extract(&d, &pat(nh, 1)).map(|z| z.to_vec())));
        same(ctx, "kdf_extract(ikm)", &case, &e(ca.kdf_extract(&pat(nh, 1), &d).map(|z| z.to_vec())), &e(cb.kdf_extract(&pat(nh, 1), &d).map(|z| z.to_vec())));
        // one class for all info strings beyond OpenSSL's documented HKDF info limit
        let icase = if n > 32768 { format!("{tag}, info longer than 32768 bytes") } else { case.clone() };
        for &pl in &[0usize, 1, nh - 1, nh + 1] {
            same(ctx, "kdf_expand(prk-length)", &(if n > 32768 { icase.clone() } else { format!("{icase}, prk length {pl} (Nh={nh})") }), &e(ca.kdf_expand(&pat(pl, 2), &d, nh).map(|z| z.to_vec())), &e(cb.kdf_expand(&pat(pl, 2), &d, nh).map(|z| z.to_vec())));
        }
        for &ol in &[0usize, 1, nh, nh + 1, 255 * nh, 255 * nh + 1] {
            same(ctx, "kdf_expand", &(if n > 32768 { icase.clone() } else { format!("{icase}, output length {ol}") }), &e(ca.kdf_expand(&pat(nh, 2), &d, ol).map(|z| z.to_vec())), &e(cb.kdf_expand(&pat(nh, 2), &d, ol).map(|z| z.to_vec())));
        }
        for aad in [None, Some(&b"aad"[..]), Some(&[][..])] {
            let (key, nonce) = (pat(nk, 5), pat(nn, 6));
            let sa = e(ca.aead_seal(&key, &d, aad, &nonce));
            let sb = e(cb.aead_seal(&key, &d, aad, &nonce));
            same(ctx, "aead_seal", &format!("{case}, aad {aad:?}"), &sa, &sb);
            if let (Ok(ct), Ok(_)) = (&sa, &sb) {
                // cross-open, and a flipped tag is refused by both
                expect(ctx, "aead_open(cross)", &case, &e(cb.aead_open(&key, ct, aad, &nonce).map(|z| z.to_vec())), &d);
                let mut bad = ct.clone();
                let l = bad.len();
                bad[l - 1] ^= 1;
                same(ctx, "aead_open(flipped-tag)", &case, &e(ca.aead_open(&key, &bad, aad, &nonce).map(|z| z.to_vec())), &e(cb.aead_open(&key, &bad, aad, &nonce).map(|z| z.to_vec())));
                if ca.aead_open(&key, &bad, aad, &nonce).is_ok() {
                    ctx.violation("aead-accepts-flipped-tag", format!("{tag}: a flipped tag is accepted"));
                }
            }
        }
        if n > 0 {
            same(ctx, "kem_derive", &case, &e(ca.kem_derive(&d).map(|(s, p)| (s.to_vec(), p.to_vec()))), &e(cb.kem_derive(&d).map(|(s, p)| (s.to_vec(), p.to_vec()))));
        }
    }
    // wrong key / nonce sizes
    for (kl, nl) in [(nk - 1, nn), (nk + 1, nn), (nk, nn - 1), (nk, nn + 1), (0, nn), (nk, 0)] {
        let case = format!("{tag}, key length {kl} (Nk={nk}) nonce length {nl} (Nn={nn})");
        same(ctx, "aead_seal(bad-sizes)", &case, &e(ca.aead_seal(&pat(kl, 1), b"x", None, &pat(nl, 2))), &e(cb.aead_seal(&pat(kl, 1), b"x", None, &pat(nl, 2))));
        same(ctx, "aead_open(bad-sizes)", &case, &e(ca.aead_open(&pat(kl, 1), &pat(40, 4), None, &pat(nl, 2)).map(|z| z.to_vec())), &e(cb.aead_open(&pat(kl, 1), &pat(40, 4), None, &pat(nl, 2)).map(|z| z.to_vec())));
    }
    for cl in [0usize, 1, 15, 16, 17] {
        let case = format!("{tag}, ciphertext length {cl}");
        same(ctx, "aead_open(short-ciphertext)", &case, &e(ca.aead_open(&pat(nk, 1), &pat(cl, 4), None, &pat(nn, 2)).map(|z| z.to_vec())), &e(cb.aead_open(&pat(nk, 1), &pat(cl, 4), None, &pat(nn, 2)).map(|z| z.to_vec())));
    }
    // ---- signatures both ways
    for (x, y, xn) in [(&ca, &cb, a.name()), (&cb, &ca, b.name())] {
        let Ok((sk, pk)) = x.signature_key_generate() else { continue };
        let dir = format!("{tag}, key and signature made by {xn}");
        same(ctx, "signature_key_derive_public", &dir, &e(ca.signature_key_derive_public(&sk).map(|p| p.to_vec())), &e(cb.signature_key_derive_public(&sk).map(|p| p.to_vec())));
        for &n in &[0usize, 1, 64, 1024] {
            let m = pat(n, 9);
            let Ok(sig) = x.sign(&sk, &m) else { continue };
            ctx.eval();
            if let Err(err) = y.verify(&pk, &sig, &m) {
                ctx.violation(format!("providers-differ|sign-verify|{tag}|made by {xn}"), format!("{tag}: a signature made by {xn} does not verify under the other provider (message length {n}): {err:?}"));
            } else {
                ctx.outcome("sign/verify:interoperates");
            }
            let mut bad = sig.clone();
            let l = bad.len();
            bad[l / 2] ^= 0x10;
            same(ctx, "verify(bad-signature)", &dir, &e(ca.verify(&pk, &bad, &m)), &e(cb.verify(&pk, &bad, &m)));
            same(ctx, "verify(truncated-signature)", &dir, &e(ca.verify(&pk, &sig[..l - 1], &m)), &e(cb.verify(&pk, &sig[..l - 1], &m)));
            same(ctx, "verify(extended-signature)", &dir, &e(ca.verify(&pk, &[sig.clone(), vec![0]].concat(), &m)), &e(cb.verify(&pk, &[sig.clone(), vec![0]].concat(), &m)));
            same(ctx, "verify(empty-signature)", &dir, &e(ca.verify(&pk, &[], &m)), &e(cb.verify(&pk, &[], &m)));
            same(ctx, "verify(wrong-message)", &dir, &e(ca.verify(&pk, &sig, b"other")), &e(cb.verify(&pk, &sig, b"other")));
        }
        let pkb = pk.to_vec();
        for (nm, bad_pk) in [("one byte short", pkb[..pkb.len() - 1].to_vec()), ("one byte long", [pkb.clone(), vec![0]].concat()), ("all zero", vec![0u8; pkb.len()]), ("empty", vec![])] {
            let bp = SignaturePublicKey::from(bad_pk.clone());
            if let Ok(sig) = x.sign(&sk, b"m") {
                same(ctx, "verify(malformed-public-key)", &format!("{dir}, public key {nm}"), &e(ca.verify(&bp, &sig, b"m")), &e(cb.verify(&bp, &sig, b"m")));
            }
        }
        for (nm, bad_sk) in [("empty", vec![]), ("3 zero bytes", vec![0u8; 3]), ("one byte short", sk.to_vec()[..sk.len() - 1].to_vec()), ("one byte long", [sk.to_vec(), vec![0]].concat())] {
            let bs = SignatureSecretKey::from(bad_sk);
            let case = format!("{tag}, secret key {nm}");
            same(ctx, "sign(malformed-secret-key)", &case, &e(ca.sign(&bs, b"m").map(|_| ())), &e(cb.sign(&bs, b"m").map(|_| ())));
            same(ctx, "signature_key_derive_public(malformed-secret-key)", &case, &e(ca.signature_key_derive_public(&bs).map(|_| ())), &e(cb.signature_key_derive_public(&bs).map(|_| ())));
        }
    }
    // ---- HPKE both ways, base and PSK mode, single shot and context
    for (x, y, xn) in [(&ca, &cb, a.name()), (&cb, &ca, b.name())] {
        let Ok((sk, pk)) = y.kem_generate() else { continue };
        for (ci, (info, aad, pt)) in [(&b""[..], None, &b"p"[..]), (b"info", Some(&b"aad"[..]), b"plaintext"), (&[7u8; 300][..], Some(&[][..]), &[9u8; 1000][..]), (b"i", None, &b""[..])].into_iter().enumerate() {
            let case = format!("{tag}, sealed by {xn}, info/aad/plaintext combination #{ci} (plaintext length {})", pt.len());
            let sx = e(x.hpke_seal(&pk, info, aad, pt));
            // the sealing side's verdict must not depend on the provider (compare with the other provider sealing too)
            same(ctx, "hpke_seal(verdict)", &case, &e(ca.hpke_seal(&pk, info, aad, pt).map(|_| ())), &e(cb.hpke_seal(&pk, info, aad, pt).map(|_| ())));
            if let Ok(ct) = sx {
                expect(ctx, "hpke_open(cross)", &case, &e(y.hpke_open(&ct, &sk, &pk, info, aad).map(|z| z.to_vec())), &pt.to_vec());
                let mut bad = ct.clone();
                if let Some(l) = bad.ciphertext.last_mut() {
                    *l ^= 1;
                }
                same(ctx, "hpke_open(flipped)", &case, &e(ca.hpke_open(&bad, &sk, &pk, info, aad).map(|z| z.to_vec())), &e(cb.hpke_open(&bad, &sk, &pk, info, aad).map(|z| z.to_vec())));
                same(ctx, "hpke_open(wrong-info)", &case, &e(ca.hpke_open(&ct, &sk, &pk, b"other info", aad).map(|z| z.to_vec())), &e(cb.hpke_open(&ct, &sk, &pk, b"other info", aad).map(|z| z.to_vec())));
            }
            let psk = HpkePsk::new(b"psk id", b"psk value of some length........");
            if let Ok(ct) = x.hpke_seal_psk(&pk, info, aad, pt, psk.clone()) {
                expect(ctx, "hpke_open_psk(cross)", &case, &e(y.hpke_open_psk(&ct, &sk, &pk, info, aad, psk.clone()).map(|z| z.to_vec())), &pt.to_vec());
                let other = HpkePsk::new(b"psk id", b"another value of the same length");
                same(ctx, "hpke_open_psk(wrong-psk)", &case, &e(ca.hpke_open_psk(&ct, &sk, &pk, info, aad, other.clone()).map(|z| z.to_vec())), &e(cb.hpke_open_psk(&ct, &sk, &pk, info, aad, other).map(|z| z.to_vec())));
                // base-mode open of a PSK-mode ciphertext
                same(ctx, "hpke_open(psk-ciphertext)", &case, &e(ca.hpke_open(&ct, &sk, &pk, info, aad).map(|z| z.to_vec())), &e(cb.hpke_open(&ct, &sk, &pk, info, aad).map(|z| z.to_vec())));
            }
            if let Ok((enc, mut cs)) = x.hpke_setup_s(&pk, info) {
                match y.hpke_setup_r(&enc, &sk, &pk, info) {
                    Ok(mut cr) => {
                        for i in 0..3u8 {
                            let m = vec![i; 10 + i as usize];
                            let ct = cs.seal(aad, &m);
                            expect(ctx, "hpke_context(seal/open)", &case, &e(ct.and_then(|c| cr.open(aad, &c)).map(|z| z.to_vec())), &m);
                        }
                        same(ctx, "hpke_context(export)", &case, &e(cs.export(b"exp", 47).map(|z| z.to_vec())), &e(cr.export(b"exp", 47).map(|z| z.to_vec())));
                    }
                    Err(err) => ctx.violation(format!("providers-differ|hpke_setup|{tag}|by {xn}"), format!("{case}: setup_r fails on the other provider's setup_s output: {err:?}")),
                }
            }
        }
    }
    // ---- malformed KEM public keys: same verdict from validate, seal and setup
    if let Ok((_, good)) = ca.kem_generate() {
        let g = good.to_vec();
        let l = g.len();
        let mut cands: Vec<(&str, Vec<u8>)> = vec![("empty", vec![]), ("all zero", vec![0u8; l]), ("all ones", vec![0xff; l]), ("valid key, one byte short", g[..l - 1].to_vec()), ("valid key, one byte long", [g.clone(), vec![0]].concat()), ("0x01 then zeros", {
            let mut x = vec![0u8; l];
            x[0] = 1;
            x
        })];
        if l == 32 {
            // X25519 small-order points (RFC 7748 section 6.1 requires the all-zero check)
            let p: [u8; 32] = [0xed, 0xff, 0xff, 0xff, 0xff, 0xff, 0xff, 0xff, 0xff, 0xff, 0xff, 0xff, 0xff, 0xff, 0xff, 0xff, 0xff, 0xff, 0xff, 0xff, 0xff, 0xff, 0xff, 0xff, 0xff, 0xff, 0xff, 0xff, 0xff, 0xff, 0xff, 0x7f];
            let mut pm1 = p;
            pm1[0] = 0xec;
            let mut pp1 = p;
            pp1[0] = 0xee;
            cands.push(("X25519 u = p (low order)", p.to_vec()));
            cands.push(("X25519 u = p-1 (low order)", pm1.to_vec()));
            cands.push(("X25519 u = p+1 (low order)", pp1.to_vec()));
            cands.push(("X25519 order-8 point e0eb7a..", vec![0xe0, 0xeb, 0x7a, 0x7c, 0x3b, 0x41, 0xb8, 0xae, 0x16, 0x56, 0xe3, 0xfa, 0xf1, 0x9f, 0xc4, 0x6a, 0xda, 0x09, 0x8d, 0xeb, 0x9c, 0x32, 0xb1, 0xfd, 0x86, 0x62, 0x05, 0x16, 0x5f, 0x49, 0xb8, 0x00]));
            cands.push(("X25519 order-8 point 5f9c95..", vec![0x5f, 0x9c, 0x95, 0xbc, 0xa3, 0x50, 0x8c, 0x24, 0xb1, 0xd0, 0xb1, 0x55, 0x9c, 0x83, 0xef, 0x5b, 0x04, 0x44, 0x5c, 0xc4, 0x58, 0x1c, 0x8e, 0x86, 0xd8, 0x22, 0x4e, 0xdd, 0xd0, 0x9f, 0x11, 0x57]));
        } else {
            // an uncompressed point that is not on the curve
            let mut off = g.clone();
            let n = off.len();
            off[n - 1] ^= 1;
            cands.push(("valid point with the last bit of y flipped (off curve)", off));
            let mut comp = g.clone();
            comp[0] = 0x02;
            cands.push(("valid point with the format byte set to 0x02", comp));
            let mut inf = vec![0u8; l];
            inf[0] = 0x04;
            cands.push(("0x04 then zeros", inf));
        }
        for (nm, c) in cands {
            let pk = HpkePublicKey::from(c.clone());
            let case = format!("{tag}, public key: {nm}");
            same(ctx, "kem_public_key_validate", &case, &e(ca.kem_public_key_validate(&pk)), &e(cb.kem_public_key_validate(&pk)));
            same(ctx, "hpke_seal(malformed-key)", &case, &e(ca.hpke_seal(&pk, b"i", None, b"m").map(|_| ())), &e(cb.hpke_seal(&pk, b"i", None, b"m").map(|_| ())));
            same(ctx, "hpke_setup_s(malformed-key)", &case, &e(ca.hpke_setup_s(&pk, b"i").map(|_| ())), &e(cb.hpke_setup_s(&pk, b"i").map(|_| ())));
            if let Ok((sk, pk2)) = ca.kem_generate() {
                same(ctx, "hpke_setup_r(malformed-enc)", &case, &e(ca.hpke_setup_r(&c, &sk, &pk2, b"i").map(|_| ())), &e(cb.hpke_setup_r(&c, &sk, &pk2, b"i").map(|_| ())));
            }
            ctx.goal("malformed-kem-key");
        }
        for (nm, bad) in [("empty", vec![]), ("3 zero bytes", vec![0u8; 3]), ("all zero", vec![0u8; ca.kem_generate().map(|k| k.0.len()).unwrap_or(32)])] {
            let bad_sk = HpkeSecretKey::from(bad);
            if let Ok(ct) = ca.hpke_seal(&good, b"i", None, b"m") {
                same(ctx, "hpke_open(malformed-secret-key)", &format!("{tag}, secret key {nm}"), &e(ca.hpke_open(&ct, &bad_sk, &good, b"i", None).map(|_| ())), &e(cb.hpke_open(&ct, &bad_sk, &good, b"i", None).map(|_| ())));
            }
        }
    }
    ctx.extra("states", 1);
    ctx.report.traces += 1;
}

// ------------------------------------------------------------------------------------------
// X.509
// ------------------------------------------------------------------------------------------

mod x509gen {
    use openssl::asn1::Asn1Time;
    use openssl::bn::BigNum;
    use openssl::ec::{EcGroup, EcKey};
    use openssl::hash::MessageDigest;
    use openssl::nid::Nid;
    use openssl::pkey::{PKey, Private};
    use openssl::x509::extension::{BasicConstraints, KeyUsage};
    use openssl::x509::{X509NameBuilder, X509};

    pub struct Node {
        pub key: PKey<Private>,
        pub cert: X509,
    }

    pub fn key() -> PKey<Private> {
        let g = EcGroup::from_curve_name(Nid::X9_62_PRIME256V1).unwrap();
        PKey::from_ec_key(EcKey::generate(&g).unwrap()).unwrap()
    }

    /// A leaf key of the given kind (0: P-256, 1: Ed25519, 2: P-384) and its MLS encoding.
    pub fn leaf_key(kind: u8) -> (PKey<Private>, Vec<u8>) {
        match kind {
            1 => {
                let k = PKey::generate_ed25519().unwrap();
                let raw = k.raw_public_key().unwrap();
                (k, raw)
            }
            _ => {
                let g = EcGroup::from_curve_name(if kind == 2 { Nid::SECP384R1 } else { Nid::X9_62_PRIME256V1 }).unwrap();
                let ec = EcKey::generate(&g).unwrap();
                let mut ctx = openssl::bn::BigNumContext::new().unwrap();
                let raw = ec.public_key().to_bytes(&g, openssl::ec::PointConversionForm::UNCOMPRESSED, &mut ctx).unwrap();
                (PKey::from_ec_key(ec).unwrap(), raw)
            }
        }
    }

    /// The MLS encoding of the public key of the first certificate of a chain (what a validator
    /// must return for it).
    pub fn first_cert_key(der: &[u8]) -> Vec<u8> {
        let pk = X509::from_der(der).unwrap().public_key().unwrap();
        match pk.ec_key() {
            Ok(ec) => {
                let mut ctx = openssl::bn::BigNumContext::new().unwrap();
                ec.public_key().to_bytes(ec.group(), openssl::ec::PointConversionForm::UNCOMPRESSED, &mut ctx).unwrap()
            }
            Err(_) => pk.raw_public_key().unwrap(),
        }
    }

    /// Issue a certificate for `subject_key` signed by `issuer` (None: self-signed).
    pub fn issue(cn: &str, subject_key: &PKey<Private>, issuer: Option<&Node>, ca: bool, not_before: i64, not_after: i64, sign_with: Option<&PKey<Private>>, serial: u32) -> X509 {
        issue_ext(cn, subject_key, issuer, ca, not_before, not_after, sign_with, serial, None, true)
    }

    /// As `issue`, with a path length constraint and with or without keyCertSign for a CA.
    #[allow(clippy::too_many_arguments)]
    pub fn issue_ext(cn: &str, subject_key: &PKey<Private>, issuer: Option<&Node>, ca: bool, not_before: i64, not_after: i64, sign_with: Option<&PKey<Private>>, serial: u32, pathlen: Option<u32>, cert_sign: bool) -> X509 {
        let mut name = X509NameBuilder::new().unwrap();
        name.append_entry_by_text("CN", cn).unwrap();
        let name = name.build();
        let mut b = X509::builder().unwrap();
        b.set_version(2).unwrap();
        b.set_serial_number(&BigNum::from_u32(serial).unwrap().to_asn1_integer().unwrap()).unwrap();
        b.set_subject_name(&name).unwrap();
        match issuer {
            Some(i) => b.set_issuer_name(i.cert.subject_name()).unwrap(),
            None => b.set_issuer_name(&name).unwrap(),
        }
        b.set_pubkey(subject_key).unwrap();
        b.set_not_before(&Asn1Time::from_unix(not_before).unwrap()).unwrap();
        b.set_not_after(&Asn1Time::from_unix(not_after).unwrap()).unwrap();
        if ca {
            let mut bc = BasicConstraints::new();
            bc.critical().ca();
            if let Some(p) = pathlen {
                bc.pathlen(p);
            }
            b.append_extension(bc.build().unwrap()).unwrap();
            let mut ku = KeyUsage::new();
            ku.critical().crl_sign();
            if cert_sign {
                ku.key_cert_sign();
            }
            b.append_extension(ku.build().unwrap()).unwrap();
        } else {
            b.append_extension(BasicConstraints::new().critical().build().unwrap()).unwrap();
            b.append_extension(KeyUsage::new().critical().digital_signature().build().unwrap()).unwrap();
        }
        let signer = sign_with.unwrap_or_else(|| issuer.map(|i| &i.key).unwrap_or(subject_key));
        // Ed25519 signs without a separate digest
        let md = if signer.id() == openssl::pkey::Id::ED25519 { MessageDigest::null() } else { MessageDigest::sha256() };
        b.sign(signer, md).unwrap();
        b.build()
    }
}

#[derive(Clone, Copy, Debug, PartialEq, Eq)]
enum Defect {
    None,
    ExpiredLeaf,
    ExpiredIntermediate,
    ExpiredRoot,
    NotYetValidLeaf,
    WrongIssuerSignature,
    MissingIntermediate,
    Reordered,
    NonCaIssuer,
    UnknownRoot,
    /// not a defect: the trust anchor itself is appended to the chain
    RootInChain,
    /// not a defect: Ed25519 / P-384 leaf key
    LeafEd25519,
    LeafP384,
    /// the first intermediate has pathLenConstraint 0 but issues another CA (depth 3)
    PathLenExceeded,
    /// the leaf's issuer is a CA whose key usage lacks keyCertSign (depth >= 2)
    IssuerWithoutCertSign,
    /// the chain is one self-signed certificate that is not a trust anchor (depth 1)
    SelfSignedLeafUntrusted,
}

const DEFECTS: [Defect; 16] = [
    Defect::None,
    Defect::ExpiredLeaf,
    Defect::ExpiredIntermediate,
    Defect::ExpiredRoot,
    Defect::NotYetValidLeaf,
    Defect::WrongIssuerSignature,
    Defect::MissingIntermediate,
    Defect::Reordered,
    Defect::NonCaIssuer,
    Defect::UnknownRoot,
    Defect::RootInChain,
    Defect::LeafEd25519,
    Defect::LeafP384,
    Defect::PathLenExceeded,
    Defect::IssuerWithoutCertSign,
    Defect::SelfSignedLeafUntrusted,
];

fn x509_cases(ctx: &mut Ctx) {
    use x509gen::*;
    let t0: i64 = 1_900_000_000; // validity window [t0, t1]
    let t1: i64 = t0 + 1000 * 86400;
    let far_past: (i64, i64) = (t0 - 2000 * 86400, t0 - 1000 * 86400);
    for depth in 1..=3usize {
        for defect in DEFECTS {
            // depth 1: root -> leaf; depth 2: root -> int -> leaf; depth 3: root -> int -> int2 -> leaf
            let applies = match defect {
                Defect::ExpiredIntermediate | Defect::MissingIntermediate | Defect::Reordered | Defect::IssuerWithoutCertSign => depth >= 2,
                Defect::PathLenExceeded => depth == 3,
                Defect::SelfSignedLeafUntrusted => depth == 1,
                _ => true,
            };
            if !applies {
                continue;
            }
            let root_key = key();
            let (rb, ra) = if defect == Defect::ExpiredRoot { far_past } else { (t0 - 10, t1 + 10) };
            let root = Node { cert: issue("verif root", &root_key, None, true, rb, ra, None, 1), key: root_key };
            let other_root_key = key();
            let other_root = Node { cert: issue("another root", &other_root_key, None, true, t0 - 10, t1 + 10, None, 2), key: other_root_key };
            let mut issuers: Vec<Node> = vec![];
            let mut parent_is_root = true;
            for i in 0..depth - 1 {
                let k = key();
                let (nb, na) = if defect == Defect::ExpiredIntermediate && i == 0 { far_past } else { (t0 - 5, t1 + 5) };
                let parent = if parent_is_root { &root } else { issuers.last().unwrap() };
                let ca_flag = !(defect == Defect::NonCaIssuer && i == depth - 2);
                let pathlen = (defect == Defect::PathLenExceeded && i == 0).then_some(0u32);
                let cert_sign = !(defect == Defect::IssuerWithoutCertSign && i == depth - 2);
                let cert = issue_ext(&format!("verif intermediate {i}"), &k, Some(parent), ca_flag, nb, na, None, 10 + i as u32, pathlen, cert_sign);
                issuers.push(Node { cert, key: k });
                parent_is_root = false;
            }
            let (leaf_key, leaf_key_bytes) = leaf_key(match defect {
                Defect::LeafEd25519 => 1,
                Defect::LeafP384 => 2,
                _ => 0,
            });
            let (lb, la) = match defect {
                Defect::ExpiredLeaf => far_past,
                Defect::NotYetValidLeaf => (t1 + 100 * 86400, t1 + 200 * 86400),
                _ => (t0, t1),
            };
            let leaf_issuer: &Node = issuers.last().unwrap_or(&root);
            let stranger = key();
            let sign_with = (defect == Defect::WrongIssuerSignature).then_some(&stranger);
            // a non-CA issuer at depth 1 means: the "root" itself is fine but the leaf is issued by another leaf
            let non_ca_parent;
            let leaf_issuer = if defect == Defect::NonCaIssuer && depth == 1 {
                let k = key();
                let cert = issue("a leaf acting as issuer", &k, Some(&root), false, t0 - 5, t1 + 5, None, 50);
                non_ca_parent = Node { cert, key: k };
                &non_ca_parent
            } else {
                leaf_issuer
            };
            let leaf = if defect == Defect::SelfSignedLeafUntrusted { issue("verif member", &leaf_key, None, false, lb, la, None, 99) } else { issue("verif member", &leaf_key, Some(leaf_issuer), false, lb, la, sign_with, 99) };
            let mut chain: Vec<Vec<u8>> = vec![leaf.to_der().unwrap()];
            if defect == Defect::NonCaIssuer && depth == 1 {
                chain.push(leaf_issuer.cert.to_der().unwrap());
            }
            for i in issuers.iter().rev() {
                chain.push(i.cert.to_der().unwrap());
            }
            match defect {
                Defect::MissingIntermediate => {
                    chain.remove(1);
                }
                Defect::Reordered => {
                    let last = chain.len() - 1;
                    if last >= 2 {
                        chain.swap(1, last);
                    } else {
                        // only one intermediate: put it in front of the leaf
                        chain.swap(0, 1);
                    }
                }
                Defect::RootInChain => chain.push(root.cert.to_der().unwrap()),
                _ => {}
            }
            let trust: Vec<Vec<u8>> = vec![if defect == Defect::UnknownRoot { other_root.cert.to_der().unwrap() } else { root.cert.to_der().unwrap() }];
            // a reordered chain presents another certificate as the credential's leaf
            let leaf_key_bytes = if defect == Defect::Reordered { first_cert_key(&chain[0]) } else { leaf_key_bytes };
            let chain_obj = CertificateChain::from(chain.clone());
            let ders: Vec<mls_rs_core::identity::DerCertificate> = trust.iter().map(|d| d.clone().into()).collect();
            const TIMES: [&str; 5] = ["notBefore-1s", "notBefore", "middle", "notAfter", "notAfter+1s"];
            for (ti, t) in [t0 - 1, t0, (t0 + t1) / 2, t1, t1 + 1].into_iter().enumerate() {
                let tl = TIMES[ti];
                let when = Some(mls_rs::time::MlsTime::from_duration_since_epoch(std::time::Duration::from_secs(t as u64)));
                let case = format!("depth {depth}, {defect:?}, validation time {tl}");
                ctx.cur_trail = vec![format!("x509: {case}")];
                let run = |f: &dyn Fn() -> Result<Vec<u8>, String>| -> Result<Vec<u8>, String> {
                    match std::panic::catch_unwind(std::panic::AssertUnwindSafe(f)) {
                        Ok(r) => r,
                        Err(_) => {
                            let (loc, msg, _) = take_panic();
                            Err(format!("PANIC at {loc}: {msg}"))
                        }
                    }
                };
                let vo = run(&|| mls_rs_crypto_openssl::x509::X509Validator::new(ders.clone()).map_err(|e| format!("{e:?}"))?.validate_chain(&chain_obj, when).map(|k| k.to_vec()).map_err(|e| format!("{e:?}")));
                let va = run(&|| mls_rs_crypto_awslc::x509::CertificateValidator::new_der(&ders).map_err(|e| format!("{e:?}"))?.validate_chain(&chain_obj, when).map(|k| k.to_vec()).map_err(|e| format!("{e:?}")));
                let vr = run(&|| mls_rs_crypto_rustcrypto::x509::X509Validator::new(ders.clone()).map_err(|e| format!("{e:?}"))?.validate_chain(&chain_obj, when).map(|k| k.to_vec()).map_err(|e| format!("{e:?}")));
                // what the injected defect and the time imply
                let in_window = t >= t0 && t <= t1;
                let expect_ok = match defect {
                    Defect::None | Defect::RootInChain | Defect::LeafEd25519 | Defect::LeafP384 => in_window,
                    _ => false,
                };
                // a reordered chain of depth >= 2 still contains every certificate: validators that
                // build the path from a set accept it; RFC 9420 requires order, so either verdict is
                // recorded but agreement is demanded
                let strict = defect != Defect::Reordered;
                // signature label: the variants of a valid chain share the label of the plain valid chain
                let dl = if matches!(defect, Defect::RootInChain | Defect::LeafEd25519 | Defect::LeafP384) { "None".to_string() } else { format!("{defect:?}") };
                ctx.eval();
                for (name, v) in [("openssl", &vo), ("awslc", &va), ("rustcrypto", &vr)] {
                    if let Err(m) = v {
                        if m.starts_with("PANIC") {
                            ctx.violation(format!("x509-validator-panic|{name}"), format!("{case}: {m}"));
                        }
                    }
                    if strict && v.is_ok() != expect_ok {
                        ctx.violation(
                            format!("x509-wrong-verdict|{name}|{dl}|{}|t={tl}", if v.is_ok() { "accepts" } else { "rejects" }),
                            format!("{name} validator {} a chain with defect {defect:?} at depth {depth}, validation time {tl}: {:?}", if v.is_ok() { "accepts" } else { "rejects" }, v.as_ref().err()),
                        );
                    }
                }
                if !(vo.is_ok() == va.is_ok() && va.is_ok() == vr.is_ok()) {
                    ctx.violation(format!("x509-verdicts-differ|{dl}|t={tl}|openssl={} awslc={} rustcrypto={}", vo.is_ok(), va.is_ok(), vr.is_ok()), format!("{case}: openssl ok={} awslc ok={} rustcrypto ok={}", vo.is_ok(), va.is_ok(), vr.is_ok()));
                } else {
                    ctx.outcome(format!("x509:{}:{}", if vo.is_ok() { "all-accept" } else { "all-reject" }, if expect_ok { "valid" } else { "defective" }));
                }
                if let (Ok(a), Ok(b), Ok(c)) = (&vo, &va, &vr) {
                    if a != b || b != c {
                        ctx.violation("x509-leaf-key-differs", format!("{case}: validators return different leaf public keys"));
                    }
                }
                for (name, v) in [("openssl", &vo), ("awslc", &va), ("rustcrypto", &vr)] {
                    if let Ok(k) = v {
                        if *k != leaf_key_bytes {
                            ctx.violation(format!("x509-leaf-key-wrong|{name}|{defect:?}"), format!("{case}: the {name} validator returns a signature key that is not the leaf certificate's public key"));
                        }
                    }
                }
                ctx.extra("states", 1);
            }
            ctx.goal("x509-chains");
        }
    }
}

fn mixed_models(quick: bool) -> Vec<HistoryModel> {
    // every assignment of providers to four parties (3^4) for suite 1, one per suite otherwise
    let ws = Which::all();
    let mut cfgs = vec![];
    for a in ws {
        for b in ws {
            for c in ws {
                for d in ws {
                    if quick && !(a != b || c != d) {
                        continue;
                    }
                    cfgs.push(WorldCfg { suite: 1, providers: vec![a, b, c, d], ..Default::default() });
                }
            }
        }
    }
    for suite in [2u16, 3] {
        cfgs.push(WorldCfg { suite, providers: vec![Which::Rust, Which::Ossl, Which::Awslc], ..Default::default() });
        cfgs.push(WorldCfg { suite, providers: vec![Which::Awslc, Which::Rust, Which::Ossl], encrypt_handshake: true, ..Default::default() });
    }
    for suite in [5u16, 7] {
        cfgs.push(WorldCfg { suite, providers: vec![Which::Ossl, Which::Awslc], ..Default::default() });
    }
    let mon = Monitors { decrypt: true, ..Default::default() };
    vec![HistoryModel { cfgs, mon, n_parties: 4, depth_initial: if quick { 2 } else { 3 }, depth_gallery: 1, alphabet: Alphabet::Full, seeds: vec!["S0", "S1"], all_proposers: false, max_deviations: 0 }]
}

pub fn meta(tier: &str) -> Meta {
    Meta {
        level: "model_checking",
        rule: "for every pair of the three shipped providers and every common suite: hash, MAC (4 key lengths), KDF extract/expand (salt/ikm/info x 5 output lengths incl. 255*Nh+1), AEAD seal (3 AAD forms) and kem_derive over 17 input lengths {0,1,15,16,17,...,1024}: byte equality; AEAD cross-open and flipped tag; wrong AEAD key/nonce sizes; signatures both ways with bad / truncated signatures, wrong message, malformed public and secret keys; HPKE seal/open, PSK mode, setup_s/setup_r + 3 messages + export, both ways; malformed KEM public keys (empty, zero, ones, short, long, low-order X25519 points, off-curve / compressed EC points) through validate, seal, setup_s, setup_r: same verdict; mixed-provider groups: every assignment of the 3 providers to 4 parties on suite 1 (depth 2 quick / 3 thorough from 2 seeds, C01 ledger + pairwise decrypt) plus 3-provider groups on suites 2,3 and 2-provider groups on 5,7; X.509: chains of depth 1..3 x 16 variants (valid with P-256, Ed25519, P-384 leaf, valid with the trust anchor appended; expired leaf, intermediate, root; not yet valid; wrong issuer signature; missing, reordered intermediate; non-CA issuer; unknown root; path length constraint exceeded; issuer without keyCertSign; untrusted self-signed leaf) x 5 validation times through the three validators: same verdict, the verdict the variant implies, and the returned signature key equals the public key of the first certificate; states = provider pairs x suites + x509 cases".into(),
        assumptions: vec![
            "a reordered certificate chain may be accepted or rejected (path building from a set); only agreement between the validators is demanded for it".into(),
            "cryptographic strength is not a subject; providers are compared with each other, not with test vectors".into(),
        ],
        bounds: bounds_json(&[("providers", json!(["rustcrypto", "openssl", "awslc"])), ("tier", json!(tier))]),
        required_goals: vec!["malformed-kem-key", "x509-chains"],
        min_outcomes: 10,
        workers: 16,
    }
}

pub fn run(ctx: &mut Ctx) {
    let mut item = 0;
    let ws = Which::all();
    for i in 0..3 {
        for j in i + 1..3 {
            for suite in common_suites(ws[i], ws[j]) {
                if ctx.mine(item) {
                    let r = std::panic::catch_unwind(std::panic::AssertUnwindSafe(|| pair(ws[i], ws[j], suite, ctx)));
                    if r.is_err() {
                        let (loc, msg, lib) = take_panic();
                        if lib {
                            ctx.violation(format!("provider-panic|{loc}"), format!("{}/{} suite {suite}: {msg}", ws[i].name(), ws[j].name()));
                        } else {
                            crate::engine::machinery(&format!("harness panic at {loc}: {msg}"));
                        }
                    }
                }
                item += 1;
            }
        }
    }
    if ctx.mine(item) {
        x509_cases(ctx);
    }
    ctx.model_idx = 1;
    for m in mixed_models(ctx.quick()) {
        explore(&m, ctx);
    }
    if ctx.shard.0 == 0 {
        ctx.sample(json!({"pair": "rustcrypto/openssl", "suite": 1, "primitive": "kdf_expand", "info_len": 33, "out_len": 8160}));
        ctx.sample(json!({"x509": {"depth": 2, "defect": "ExpiredIntermediate", "time": "notAfter"}}));
    }
    let _: Option<DynCs> = None;
}

pub fn replay(ctx: &mut Ctx, path: &[usize]) {
    if path.first() == Some(&1) {
        for m in mixed_models(ctx.quick()) {
            crate::engine::replay(&m, ctx, &path[1..]);
        }
        return;
    }
    println!("C14 grids: rerun `bin/check C14 quick`");
}
