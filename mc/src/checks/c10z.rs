//! C10, groups whose members do not all support the same credential types.
//!
//! Four members; a pattern says which of them advertise a second credential type
//! (`CUSTOM_CRED`) in their capabilities. Three outsiders ask to be added by reference: X (its
//! credential has the second type; supports both), Y (basic credential, supports both), Z
//! (basic, supports only basic). RFC 9420 12.2 makes Add(X) invalid unless every member
//! supports X's credential type, and makes one of Add(X) / Add(Z) invalid when both are cached
//! (the later one). Every subset of the three Adds is sent by a member and cached by everybody,
//! then each member in turn commits (with nothing, a PSK, or an Add of a basic-only outsider by
//! value), everybody processes the commit, the added parties join, and a second member commits
//! again (empty, or adding a basic-only outsider).
//!
//! Oracle: the first commit can be built whenever the by-value part is valid on its own (the
//! invalid by-reference Adds are dropped silently), every member accepts it and agrees with the
//! committer on applied / unused proposals and the epoch state; X is never applied unless every
//! member supports its credential type and is applied when nothing speaks against it; Y is
//! always applied; the added parties can join; and the follow-up commit of every member
//! (committer of the first one included: its validation state must not remember the dropped
//! leaf) can be built and is accepted by all, joiners included.

use mls_rs::group::proposal::Proposal;
use mls_rs::group::{CommitEffect, CommitMessageDescription, ReceivedMessage};
use mls_rs::identity::{CustomCredential, SigningIdentity};
use mls_rs::CipherSuiteProvider;
use mls_rs_core::identity::{Credential, CredentialType};

use crate::engine::{take_panic, Ctx};
use crate::oracles::ledger_entry;
use crate::world::*;

const X: usize = 5;
const Y: usize = 6;
const Z: usize = 7;
const SPARE: usize = 4;
const SPARE2: usize = 8;
const MEMBERS: [usize; 4] = [0, 1, 2, 3];

#[derive(Clone, Copy, Debug, PartialEq, Eq)]
pub enum ByValue {
    Nothing,
    Psk,
    AddBasicOnly,
}

#[derive(Clone, Debug)]
pub struct Case {
    /// members that advertise the second credential type
    wide: Vec<usize>,
    by_ref: Vec<usize>,
    proposer: usize,
    committer: usize,
    by_value: ByValue,
    follow_up: usize,
    follow_up_adds: bool,
}

fn wide_ids(wide: &[usize]) -> Vec<u32> {
    let mut v: Vec<u32> = wide.iter().map(|x| *x as u32).collect();
    v.extend([X as u32, Y as u32]);
    v
}

fn base_world(wide: &[usize]) -> World {
    wide_credential_parties(wide_ids(wide));
    let mut w = World::new(WorldCfg::default(), 9);
    for p in 0..9 {
        w.set_psk(p, 0, b"psk-zero-value".to_vec());
    }
    // X carries a credential of the second type
    let cs = w.parties[X].client_cs(&w.cfg);
    let (sk, pk) = cs.signature_key_generate().unwrap_or_else(|_| crate::engine::machinery("keygen"));
    let cred = Credential::Custom(CustomCredential::new(CredentialType::new(CUSTOM_CRED), b"X".to_vec()));
    w.set_signer(X, sk, SigningIdentity::new(cred, pk));
    w.parties[X].rekeys = 0;
    let r = w.run(|w| {
        w.create(0)?;
        let b = w.commit(0, &CommitSpec { props: vec![Prop::Add(1), Prop::Add(2), Prop::Add(3)], ..Default::default() })?;
        w.apply(0)?;
        for (x, _) in &b.added {
            w.join(*x, &b.out.welcome_messages[0], None)?;
        }
        Ok::<(), mls_rs::error::MlsError>(())
    });
    if !matches!(r, Ok(Ok(()))) {
        crate::engine::machinery(&format!("C10z seed could not be built: {:?}", r.map(|x| x.map_err(|e| format!("{e:?}")))));
    }
    w
}

fn patterns() -> Vec<Vec<usize>> {
    vec![vec![0, 1, 2, 3], vec![0, 1, 2], vec![1, 2, 3], vec![0], vec![]]
}

pub fn cases(quick: bool) -> Vec<Case> {
    let mut out = vec![];
    for wide in patterns() {
        for mask in 0..8u32 {
            let sets: Vec<Vec<usize>> = {
                let s: Vec<usize> = [X, Y, Z].iter().enumerate().filter(|(i, _)| mask & (1 << i) != 0).map(|(_, p)| *p).collect();
                // both orders where X and Z meet
                if s.contains(&X) && s.contains(&Z) {
                    let mut r = s.clone();
                    r.reverse();
                    vec![s, r]
                } else {
                    vec![s]
                }
            };
            for by_ref in sets {
                for committer in MEMBERS {
                    for by_value in [ByValue::Nothing, ByValue::Psk, ByValue::AddBasicOnly] {
                        let followers: Vec<usize> = if quick { vec![committer, (committer + 1) % 4] } else { MEMBERS.to_vec() };
                        for follow_up in followers {
                            for follow_up_adds in [false, true] {
                                out.push(Case { wide: wide.clone(), by_ref: by_ref.clone(), proposer: (committer + 1) % 4, committer, by_value, follow_up, follow_up_adds });
                                if !quick {
                                    out.push(Case { wide: wide.clone(), by_ref: by_ref.clone(), proposer: committer, committer, by_value, follow_up, follow_up_adds });
                                }
                            }
                        }
                    }
                }
            }
        }
    }
    out
}

fn added_names(d: &CommitMessageDescription) -> Option<(Vec<Vec<u8>>, Vec<Vec<u8>>)> {
    let ne = match &d.effect {
        CommitEffect::NewEpoch(n) => n,
        CommitEffect::Removed { new_epoch, .. } => new_epoch,
        CommitEffect::ReInit(_) => return None,
    };
    let names = |v: &[mls_rs::mls_rules::ProposalInfo<Proposal>]| -> Vec<Vec<u8>> {
        let mut n: Vec<Vec<u8>> = v
            .iter()
            .filter_map(|p| match &p.proposal {
                Proposal::Add(a) => {
                    let c = &a.signing_identity().credential;
                    c.as_basic().map(|b| b.identifier.clone()).or_else(|| c.as_custom().map(|c| c.data.clone()))
                }
                _ => None,
            })
            .collect();
        n.sort();
        n
    };
    Some((names(&ne.applied_proposals), names(&ne.unused_proposals)))
}

/// One commit round; returns the committer's description, or None when the case ended.
fn round(w: &mut World, by: usize, spec: &CommitSpec, may_fail: bool, stage: &str, label: &str, ctx: &mut Ctx) -> Option<CommitMessageDescription> {
    ctx.eval();
    let built = match w.run(|w| w.commit(by, spec)) {
        Ok(Ok(b)) => b,
        Ok(Err(e)) => {
            if may_fail {
                ctx.outcome(format!("{stage}:build-err(by-value part invalid):{}", err_name(&e)));
            } else {
                ctx.violation(
                    format!("honest-member-cannot-commit|{stage}|{}", err_name(&e)),
                    format!("{} cannot build a commit whose by-value part is valid on its own (invalid by-reference proposals have to be dropped silently): {e:?} [{label}]", w.parties[by].name),
                );
            }
            return None;
        }
        Err(_) => {
            let (loc, msg, _) = take_panic();
            ctx.violation(format!("panic|{stage}|commit|{loc}"), format!("{msg} [{label}]"));
            return None;
        }
    };
    let msg = built.out.commit_message.clone();
    let mut descs = vec![];
    for p in w.members() {
        if p == by {
            continue;
        }
        ctx.eval();
        match w.run(|w| w.process(p, &msg)) {
            Ok(Ok(ReceivedMessage::Commit(d))) => descs.push((p, d)),
            Ok(Ok(_)) => {
                ctx.violation("commit-reported-as-other-kind", format!("[{label}]"));
                return None;
            }
            Ok(Err(e)) => {
                ctx.violation(format!("receiver-rejects-honest-commit|{stage}|{}", err_name(&e)), format!("{} rejects the commit of {}: {e:?} [{label}]", w.parties[p].name, w.parties[by].name));
                return None;
            }
            Err(_) => {
                let (loc, m2, _) = take_panic();
                ctx.violation(format!("panic|{stage}|receive-commit|{loc}"), format!("{m2} [{label}]"));
                return None;
            }
        }
    }
    let kd = match w.run(|w| w.apply(by)) {
        Ok(Ok(d)) => d,
        Ok(Err(e)) => {
            ctx.violation(format!("apply-failed|{stage}|{}", err_name(&e)), format!("{e:?} [{label}]"));
            return None;
        }
        Err(_) => {
            let (loc, m2, _) = take_panic();
            ctx.violation(format!("panic|{stage}|apply|{loc}"), format!("{m2} [{label}]"));
            return None;
        }
    };
    let ks = added_names(&kd);
    for (p, d) in &descs {
        ctx.eval();
        if added_names(d) != ks {
            ctx.violation(format!("applied-or-unused-proposals-differ|{stage}"), format!("{} reports {:?}, the committer {:?} [{label}]", w.parties[*p].name, added_names(d), ks));
        }
        let (e, r) = (ledger_entry(w, *p), ledger_entry(w, by));
        if e.context != r.context || e.authenticator != r.authenticator || e.tree != r.tree {
            ctx.violation(format!("epoch-state-differs-after-commit|{stage}"), format!("{} and the committer disagree on the new epoch [{label}]", w.parties[*p].name));
        }
    }
    // joiners
    if let Some((applied, _)) = &ks {
        for x in [SPARE, X, Y, Z, SPARE2] {
            let name: Vec<u8> = if x == X { b"X".to_vec() } else { w.parties[x].name.as_bytes().to_vec() };
            if !applied.contains(&name) || w.is_member(x) {
                continue;
            }
            ctx.eval();
            let joined = built.out.welcome_messages.iter().any(|wm| matches!(w.run(|w| w.join(x, wm, None)), Ok(Ok(()))));
            if joined {
                ctx.outcome(format!("{stage}:join:ok"));
                let (e, r) = (ledger_entry(w, x), ledger_entry(w, by));
                if e.context != r.context || e.tree != r.tree {
                    ctx.violation(format!("joiner-state-differs|{stage}"), format!("{} joined into another state than the committer's [{label}]", w.parties[x].name));
                }
            } else {
                ctx.violation(format!("added-party-cannot-join|{stage}"), format!("{} was added but none of the {} Welcome messages lets it join [{label}]", w.parties[x].name, built.out.welcome_messages.len()));
            }
        }
    }
    Some(kd)
}

fn run_case(base: &World, c: &Case, ctx: &mut Ctx) {
    let label = format!("{c:?}");
    ctx.cur_trail = vec![label.clone()];
    wide_credential_parties(wide_ids(&c.wide));
    let mut w = base.clone();
    for &t in &c.by_ref {
        ctx.eval();
        let (m, _) = match w.run(|w| w.propose(c.proposer, &Prop::Add(t))) {
            Ok(Ok(x)) => x,
            Ok(Err(e)) => {
                // a proposer refusing to send it is a (stricter) way of dropping it
                ctx.outcome(format!("propose-err:{}", err_name(&e)));
                return;
            }
            Err(_) => {
                let (loc, msg, _) = take_panic();
                ctx.violation(format!("panic|propose|{loc}"), format!("{msg} [{label}]"));
                return;
            }
        };
        for p in w.members() {
            if p == c.proposer {
                continue;
            }
            match w.run(|w| w.process(p, &m)) {
                Ok(Ok(_)) => {}
                Ok(Err(e)) => {
                    ctx.outcome(format!("proposal-receipt-err:{}", err_name(&e)));
                    return;
                }
                Err(_) => {
                    let (loc, msg, _) = take_panic();
                    ctx.violation(format!("panic|receive-proposal|{loc}"), format!("{msg} [{label}]"));
                    return;
                }
            }
        }
    }
    let all_wide = MEMBERS.iter().all(|m| c.wide.contains(m));
    let x_cached = c.by_ref.contains(&X);
    let z_cached = c.by_ref.contains(&Z);
    let spec = match c.by_value {
        ByValue::Nothing => CommitSpec::default(),
        ByValue::Psk => CommitSpec { props: vec![Prop::ExternalPsk(0)], ..Default::default() },
        ByValue::AddBasicOnly => CommitSpec { props: vec![Prop::Add(SPARE)], ..Default::default() },
    };
    // the by-value Add of a basic-only party conflicts with a valid Add(X)
    let may_fail = c.by_value == ByValue::AddBasicOnly && x_cached && all_wide;
    let Some(kd) = round(&mut w, c.committer, &spec, may_fail, "first", &label, ctx) else { return };
    if let Some((applied, unused)) = added_names(&kd) {
        let has = |v: &Vec<Vec<u8>>, n: &[u8]| v.iter().any(|x| x == n);
        ctx.eval();
        if has(&applied, b"X") {
            ctx.goal("second-credential-type-added");
            if !all_wide {
                ctx.violation("add-with-unsupported-credential-type-applied", format!("X was added although members {:?} do not support its credential type [{label}]", MEMBERS.iter().filter(|m| !c.wide.contains(m)).collect::<Vec<_>>()));
            }
        } else if x_cached {
            if all_wide && !z_cached && c.by_value != ByValue::AddBasicOnly {
                ctx.violation("valid-add-dropped|X", format!("every member supports X's credential type and nothing conflicts with it, yet it was not applied [{label}]"));
            }
            if !all_wide {
                ctx.goal("unsupported-credential-add-dropped");
                if !has(&unused, b"X") {
                    ctx.violation("dropped-add-not-reported-unused", format!("the dropped Add(X) is not among the unused proposals [{label}]"));
                }
            }
        }
        if c.by_ref.contains(&Y) && !has(&applied, b"P6") {
            ctx.violation("valid-add-dropped|Y", format!("Y (basic credential, supports both types) was not applied [{label}]"));
        }
        if z_cached && !has(&applied, b"P7") && !(x_cached && all_wide) {
            ctx.violation("valid-add-dropped|Z", format!("Z (basic only) was not applied although no credential of the second type is in use [{label}]"));
        }
        if has(&applied, b"X") && has(&applied, b"P7") {
            ctx.violation("incompatible-adds-both-applied", format!("X and Z (which does not support X's credential type) were added by one commit [{label}]"));
        }
    }
    // follow-up commit
    if !w.is_member(c.follow_up) {
        return;
    }
    let x_member = w.is_member(X);
    let spare = if w.is_member(SPARE) { SPARE2 } else { SPARE };
    let spec2 = if c.follow_up_adds { CommitSpec { props: vec![Prop::Add(spare)], ..Default::default() } } else { CommitSpec::default() };
    // a basic-only party cannot be added once X's credential type is in use
    let may_fail2 = c.follow_up_adds && x_member;
    if round(&mut w, c.follow_up, &spec2, may_fail2, "follow-up", &label, ctx).is_some() {
        ctx.goal("follow-up-commit-after-dropped-add");
    }
    ctx.report.traces += 1;
    ctx.extra("states", 1);
}

pub fn run(ctx: &mut Ctx) {
    let quick = ctx.tier == "quick";
    let cs = cases(quick);
    let mut base: Option<(Vec<usize>, World)> = None;
    for (i, c) in cs.iter().enumerate() {
        if !ctx.mine(i) {
            continue;
        }
        if ctx.over_cap() {
            break;
        }
        if base.as_ref().map(|(w, _)| w != &c.wide).unwrap_or(true) {
            base = Some((c.wide.clone(), base_world(&c.wide)));
        }
        run_case(&base.as_ref().unwrap().1, c, ctx);
    }
    wide_credential_parties(vec![]);
}
