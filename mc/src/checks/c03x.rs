//! C03, insider forgery of private messages.
//!
//! Every member knows the epoch's secret tree, so a member F can encrypt an application message
//! under the ratchet of another member V exactly as V would: same key, nonce, sender data,
//! AAD. What F cannot produce is V's signature inside the ciphertext. The harness builds such
//! PrivateMessages from scratch (RFC 9420 section 6.3: content, FramedContentTBS, SignWithLabel,
//! PrivateMessageContent, sender data key from the ciphertext sample) with V's ratchet key
//! obtained from F's own group (`derive_decryption_key`, feature `secret_tree_access`) and the
//! sender-data secret (hook H6), signs with F's key and delivers to every other member: never
//! accepted, never a panic, receiver unchanged apart from the consumed generation (that is
//! finding F-C04-1's subject, not judged here). Variants: claimed sender V (every victim),
//! a blank / out-of-tree leaf, the receiver itself; generations 0, 1, 5; wrong content type in
//! the AAD. Control: the same construction signed with V's real key is accepted and reported
//! as V's message with the right payload -- which validates the construction.

use mls_rs::group::ReceivedMessage;
use mls_rs::{CipherSuiteProvider, MlsMessage};
use mls_rs_codec::{MlsDecode, MlsEncode};
use serde_json::json;

use crate::engine::{take_panic, Ctx};
use crate::oracles::cs_of;
use crate::providers::Which;
use crate::reference::keysched::Suite;
use crate::reference::tls::put_vbytes;
use crate::stores;
use crate::world::*;

fn world(cfg: WorldCfg) -> World {
    let mut w = World::new(cfg, 6);
    let r = w.run(|w| {
        w.create(0)?;
        let b = w.commit(0, &CommitSpec { props: vec![Prop::Add(1), Prop::Add(2), Prop::Add(3)], ..Default::default() })?;
        w.apply(0)?;
        let tree = if w.cfg.tree_ext { None } else { Some(w.g(0).export_tree().into_owned()) };
        for (x, _) in &b.added {
            w.join(*x, &b.out.welcome_messages[0], tree.clone())?;
        }
        // an interior blank: remove member 1
        let b = w.commit(2, &CommitSpec { props: vec![Prop::Remove(1)], ..Default::default() })?;
        for p in [0usize, 3] {
            w.process(p, &b.out.commit_message)?;
        }
        w.apply(2)?;
        w.parties[1].group = None;
        Ok::<(), mls_rs::error::MlsError>(())
    });
    if !matches!(r, Ok(Ok(()))) {
        crate::engine::machinery("C03x world could not be built");
    }
    w
}

struct Forge<'a> {
    w: &'a World,
    /// who builds the message (its group supplies the ratchet key and the epoch secrets)
    forger: usize,
    /// leaf index written into the content and the sender data
    claimed_leaf: u32,
    /// whose ratchet the key is taken from (node index = 2 * leaf)
    ratchet_leaf: u32,
    generation: u32,
    /// party whose signature key signs the content
    signer: usize,
    /// content type in the private message header (1 = application)
    header_content_type: u8,
    payload: &'a [u8],
    /// bytes appended to PrivateMessageContent as padding
    padding: &'a [u8],
}

fn build(f: &Forge) -> Option<MlsMessage> {
    let w = f.w;
    let suite = Suite(w.cfg.suite);
    let cs = cs_of(w, f.forger);
    let g = w.g(f.forger);
    let gid = g.group_id().to_vec();
    let epoch = g.current_epoch();
    let ctx_bytes = g.context().mls_encode_to_vec().ok()?;
    let keys = g.verif_epoch_keys();
    let mut fork = g.clone();
    let mk = fork.derive_decryption_key(2 * f.ratchet_leaf, f.generation).ok()?;
    let aad: &[u8] = b"";
    // FramedContent
    let mut content = vec![];
    put_vbytes(&mut content, &gid);
    content.extend_from_slice(&epoch.to_be_bytes());
    content.push(1);
    content.extend_from_slice(&f.claimed_leaf.to_be_bytes());
    put_vbytes(&mut content, aad);
    content.push(1); // application
    put_vbytes(&mut content, f.payload);
    // FramedContentTBS: version, wire_format = private_message, content, group context
    let mut tbs = vec![0u8, 1, 0, 2];
    tbs.extend_from_slice(&content);
    tbs.extend_from_slice(&ctx_bytes);
    let mut sign_content = vec![];
    put_vbytes(&mut sign_content, b"MLS 1.0 FramedContentTBS");
    put_vbytes(&mut sign_content, &tbs);
    let signature = cs.sign(&w.parties[f.signer].signer, &sign_content).ok()?;
    // PrivateMessageContent: application_data, auth (signature), no padding
    let mut plain = vec![];
    put_vbytes(&mut plain, f.payload);
    put_vbytes(&mut plain, &signature);
    plain.extend_from_slice(f.padding);
    // PrivateContentAAD
    let mut caad = vec![];
    put_vbytes(&mut caad, &gid);
    caad.extend_from_slice(&epoch.to_be_bytes());
    caad.push(f.header_content_type);
    put_vbytes(&mut caad, aad);
    let guard = [0x0a, 0x0b, 0x0c, 0x0d];
    let mut nonce = mk.nonce().to_vec();
    for i in 0..4 {
        nonce[i] ^= guard[i];
    }
    let ciphertext = cs.aead_seal(mk.key(), &plain, Some(&caad), &nonce).ok()?;
    // sender data
    let sample = &ciphertext[..ciphertext.len().min(suite.nh())];
    let sd_key = suite.expand_with_label(&keys.sender_data_secret, b"key", sample, suite.nk());
    let sd_nonce = suite.expand_with_label(&keys.sender_data_secret, b"nonce", sample, suite.nn());
    let mut sd = f.claimed_leaf.to_be_bytes().to_vec();
    sd.extend_from_slice(&f.generation.to_be_bytes());
    sd.extend_from_slice(&guard);
    let mut sd_aad = vec![];
    put_vbytes(&mut sd_aad, &gid);
    sd_aad.extend_from_slice(&epoch.to_be_bytes());
    sd_aad.push(f.header_content_type);
    let enc_sd = cs.aead_seal(&sd_key, &sd, Some(&sd_aad), &sd_nonce).ok()?;
    // MLSMessage { version, wire_format = private_message, PrivateMessage }
    let mut out = vec![0u8, 1, 0, 2];
    put_vbytes(&mut out, &gid);
    out.extend_from_slice(&epoch.to_be_bytes());
    out.push(f.header_content_type);
    put_vbytes(&mut out, aad);
    put_vbytes(&mut out, &enc_sd);
    put_vbytes(&mut out, &ciphertext);
    MlsMessage::mls_decode(&mut &*out).ok()
}

/// Deliver on a fork of receiver `r`; returns Ok((sender index, payload)) or the error name.
fn deliver(w: &World, r: usize, m: &MlsMessage) -> std::thread::Result<Result<(u32, Vec<u8>), String>> {
    let mut f = w.clone();
    f.run(|f| match f.process(r, m) {
        Ok(ReceivedMessage::ApplicationMessage(d)) => Ok((d.sender_index, d.data().to_vec())),
        Ok(_) => Err("other-kind".to_string()),
        Err(e) => Err(err_name(&e)),
    })
}

fn sweep(w: &World, ctx: &mut Ctx) {
    let members = w.members();
    let n_leaves = 4u32;
    // ---- control: V's own key signs a message under V's own ratchet, built by another member
    let mut validated = false;
    for &v in &members {
        let Some(&helper) = members.iter().find(|m| **m != v) else { continue };
        let vl = w.leaf_of(v);
        let f = Forge { w, forger: helper, claimed_leaf: vl, ratchet_leaf: vl, generation: 0, signer: v, header_content_type: 1, payload: b"control payload", padding: &[] };
        let Some(m) = build(&f) else {
            ctx.note("C03x: the control message could not be built");
            continue;
        };
        for &r in &members {
            if r == v {
                continue;
            }
            ctx.eval();
            ctx.cur_trail = vec![format!("control: message of {} rebuilt from scratch, delivered to {}", w.parties[v].name, w.parties[r].name)];
            match deliver(w, r, &m) {
                Ok(Ok((s, p))) if s == vl && p == b"control payload" => {
                    ctx.outcome("control:accepted-and-attributed");
                    validated = true;
                }
                Ok(other) => ctx.note(format!("C03x: the control construction is not accepted ({other:?}): forgery results would be vacuous")),
                Err(_) => {
                    let (loc, msg, _) = take_panic();
                    ctx.violation(format!("panic|private-control|{loc}"), msg);
                }
            }
        }
    }
    if validated {
        ctx.goal("private-forging-procedure-validated");
    }
    // ---- application data in a PublicMessage (RFC 9420 6.2: application messages MUST be
    //      encrypted): correctly signed and MACed by a real member, still to be refused
    for &v in &members {
        let cs = cs_of(w, v);
        let g = w.g(v);
        let keys = g.verif_epoch_keys();
        let Ok(ctx_bytes) = g.context().mls_encode_to_vec() else { continue };
        let mut content = vec![];
        put_vbytes(&mut content, g.group_id());
        content.extend_from_slice(&g.current_epoch().to_be_bytes());
        content.push(1);
        content.extend_from_slice(&w.leaf_of(v).to_be_bytes());
        put_vbytes(&mut content, b"");
        content.push(1); // content type application
        put_vbytes(&mut content, b"application data in the clear");
        let mut tbs = vec![0u8, 1, 0, 1]; // mls10, wire format public message
        tbs.extend_from_slice(&content);
        tbs.extend_from_slice(&ctx_bytes);
        let mut sign_content = vec![];
        put_vbytes(&mut sign_content, b"MLS 1.0 FramedContentTBS");
        put_vbytes(&mut sign_content, &tbs);
        let Ok(signature) = cs.sign(&w.parties[v].signer, &sign_content) else { continue };
        let mut auth = vec![];
        put_vbytes(&mut auth, &signature);
        let mut tbm = tbs.clone();
        tbm.extend_from_slice(&auth);
        let tag = Suite(w.cfg.suite).hmac(&keys.membership_key, &tbm);
        let mut out = vec![0u8, 1, 0, 1];
        out.extend_from_slice(&content);
        out.extend_from_slice(&auth);
        put_vbytes(&mut out, &tag);
        let Ok(m) = MlsMessage::mls_decode(&mut &*out) else {
            ctx.outcome("public-application-message:undecodable");
            ctx.goal("public-application-message");
            continue;
        };
        for &r in &members {
            if r == v {
                continue;
            }
            ctx.eval();
            ctx.cur_trail = vec![format!("application data in a PublicMessage, signed and MACed by {}, delivered to {}", w.parties[v].name, w.parties[r].name)];
            match deliver(w, r, &m) {
                Ok(Ok(_)) => ctx.violation("unencrypted-application-message-accepted", format!("{} accepted application data that arrived as a PublicMessage", w.parties[r].name)),
                Ok(Err(e)) => {
                    ctx.outcome(format!("public-application-message:refused:{e}"));
                    ctx.goal("public-application-message");
                }
                Err(_) => {
                    let (loc, msg, _) = take_panic();
                    ctx.violation(format!("panic|public-application-message|{loc}"), msg);
                }
            }
        }
    }
    // ---- padding (RFC 9420 6.3.1): zero padding of any length is fine, any non-zero byte in
    //      it makes the message malformed -- even though signature and AEAD are right
    if let (Some(&v), Some(&helper)) = (members.first(), members.get(1)) {
        let vl = w.leaf_of(v);
        let pads: [(&str, Vec<u8>, bool); 5] = [("17 zero bytes", vec![0; 17], true), ("one non-zero byte", vec![1], false), ("zeros then 0x80", [vec![0; 30], vec![0x80]].concat(), false), ("0xff then zeros", [vec![0xff], vec![0; 30]].concat(), false), ("300 zero bytes", vec![0; 300], true)];
        for (what, pad, ok) in pads {
            let f = Forge { w, forger: helper, claimed_leaf: vl, ratchet_leaf: vl, generation: 0, signer: v, header_content_type: 1, payload: b"padded", padding: &pad };
            let Some(m) = build(&f) else { continue };
            for &r in &members {
                if r == v {
                    continue;
                }
                ctx.eval();
                ctx.cur_trail = vec![format!("authentic message with padding = {what}, delivered to {}", w.parties[r].name)];
                match (deliver(w, r, &m), ok) {
                    (Ok(Ok(_)), true) => ctx.outcome("padding:zero-accepted"),
                    (Ok(Err(e)), false) => {
                        ctx.outcome(format!("padding:non-zero-refused:{e}"));
                        ctx.goal("non-zero-padding");
                    }
                    (Ok(Ok(_)), false) => ctx.violation("non-zero-padding-accepted", format!("{} accepted a private message whose padding is {what}", w.parties[r].name)),
                    (Ok(Err(e)), true) => ctx.violation(format!("zero-padding-refused|{e}"), format!("{} refused a private message whose padding is {what}", w.parties[r].name)),
                    (Err(_), _) => {
                        let (loc, msg, _) = take_panic();
                        ctx.violation(format!("panic|private-padding|{loc}"), msg);
                    }
                }
            }
        }
    }
    // ---- forgeries
    for &forger in &members {
        let fl = w.leaf_of(forger);
        let mut targets: Vec<(String, u32, u32)> = vec![]; // (what, claimed leaf, ratchet leaf)
        for &v in &members {
            if v != forger {
                let vl = w.leaf_of(v);
                targets.push((format!("member {}", w.parties[v].name), vl, vl));
                // the victim's leaf in the content but the forger's neighbour's ratchet
                targets.push((format!("member {} over another member's ratchet", w.parties[v].name), vl, w.leaf_of(*members.iter().find(|m| **m != v && **m != forger).unwrap_or(&v))));
            }
        }
        // the blank leaf (1), a leaf beyond the tree
        targets.push(("the blank leaf".into(), 1, 1));
        targets.push(("a leaf beyond the tree".into(), n_leaves + 3, 0));
        for (what, claimed, ratchet) in targets {
            for generation in [0u32, 1, 5] {
                for header_ct in [1u8, 2] {
                    let f = Forge { w, forger, claimed_leaf: claimed, ratchet_leaf: ratchet, generation, signer: forger, header_content_type: header_ct, payload: b"forged payload", padding: &[] };
                    let Some(m) = build(&f) else {
                        ctx.outcome(format!("forgery-not-constructible:{what}"));
                        continue;
                    };
                    for &r in &members {
                        if r == forger {
                            continue;
                        }
                        ctx.eval();
                        ctx.cur_trail = vec![format!("{} forges an application message of {what} (generation {generation}, header content type {header_ct}), signed with its own key, delivered to {}", w.parties[forger].name, w.parties[r].name)];
                        match deliver(w, r, &m) {
                            Ok(Ok((s, _))) => ctx.violation(
                                format!("insider-forged-private-message-accepted|{}", if claimed == fl { "own" } else { "other-sender" }),
                                format!("{} accepted it and attributes it to leaf {s}", w.parties[r].name),
                            ),
                            Ok(Err(e)) => {
                                ctx.outcome(format!("private-forgery-refused:{e}"));
                                ctx.goal("insider-private-forgery");
                            }
                            Err(_) => {
                                let (loc, msg, _) = take_panic();
                                ctx.violation(format!("panic|private-forgery|{loc}"), msg);
                            }
                        }
                    }
                }
            }
        }
    }
    ctx.extra("states", 1);
    ctx.report.traces += 1;
}

pub fn run(ctx: &mut Ctx, shard_item: &mut usize) {
    let mut cfgs = vec![WorldCfg::default(), WorldCfg { encrypt_handshake: true, tree_ext: false, ..Default::default() }];
    if !ctx.quick() {
        for (suite, which) in [(2u16, Which::Rust), (3, Which::Ossl), (5, Which::Awslc), (7, Which::Ossl)] {
            cfgs.push(WorldCfg { suite, providers: vec![which], ..Default::default() });
        }
    }
    for cfg in cfgs {
        let mine = ctx.mine(*shard_item);
        *shard_item += 1;
        if !mine {
            continue;
        }
        let w = world(cfg);
        let r = std::panic::catch_unwind(std::panic::AssertUnwindSafe(|| sweep(&w, ctx)));
        if r.is_err() {
            let (loc, msg, lib) = take_panic();
            if lib {
                ctx.violation(format!("panic|private-forgery|{loc}"), msg);
            } else {
                crate::engine::machinery(&format!("harness panic in C03x at {loc}: {msg}"));
            }
        }
        let _ = stores::is_installed();
    }
    if ctx.shard.0 == 0 {
        ctx.sample(json!({"insider": "P0 encrypts under P2's ratchet (generation 0), signs with its own key", "expect": "refused by P3"}));
    }
}
