//! C10, proposals from external senders and new-member proposals (valid and with the wrong
//! sender for their type), delivered as correctly signed public messages.
//!
//! The group context names one external sender (`World::ext_signer`). For every proposal kind
//! a member can produce (Add, Update, Remove, PSK, GroupContextExtensions, ReInit, Custom) the
//! harness takes the member's genuine public proposal and re-issues it (a) as external sender 0,
//! signed with the external sender's key, (b) as external sender 1, which does not exist, and
//! (c) as a new-member proposal signed with an outsider's key; plus the genuine new-member Add
//! built by `Client::external_add_proposal`. Every subset of up to two of these, optionally
//! together with a genuine member proposal, is delivered to all members; then each of two
//! committers commits whatever it cached.
//!
//! Oracle: nothing panics; if the commit can be built every member that accepted the same
//! proposals accepts it, reports the same applied / unused proposals and reaches the same
//! epoch; a proposal whose sender is not allowed for its type (RFC 9420 12.1: external senders
//! may send add, remove, psk, reinit, group_context_extensions; new members only add) is never
//! applied; a proposal of a sender that does not exist is never cached.

use std::collections::BTreeMap;

use mls_rs::group::{CommitEffect, CommitMessageDescription, ReceivedMessage};
use mls_rs::{CipherSuiteProvider, MlsMessage};
use mls_rs_codec::{MlsDecode, MlsEncode};
use serde_json::json;

use crate::engine::{take_panic, Ctx};
use crate::oracles::{cs_of, ledger_entry};
use crate::reference::framing::layout;
use crate::reference::tls::put_vbytes;
use crate::stores;
use crate::world::*;

#[derive(Clone, Copy, Debug, PartialEq, Eq, PartialOrd, Ord)]
pub enum Kind {
    Add,
    Update,
    Remove,
    Psk,
    Gce,
    ReInit,
    Custom,
}

const KINDS: [Kind; 7] = [Kind::Add, Kind::Update, Kind::Remove, Kind::Psk, Kind::Gce, Kind::ReInit, Kind::Custom];

#[derive(Clone, Copy, Debug, PartialEq, Eq, PartialOrd, Ord)]
pub enum From {
    /// the genuine member proposal
    Member,
    /// external sender 0 (named in the group context)
    External,
    /// external sender 1 (not in the list)
    ExternalUnknown,
    /// new-member proposal signed by an outsider
    NewMember,
    /// the genuine `Client::external_add_proposal` (Kind::Add only)
    NewMemberGenuine,
}

#[derive(Clone, Copy, Debug, PartialEq, Eq, PartialOrd, Ord)]
pub struct Atom {
    kind: Kind,
    from: From,
}

impl Atom {
    /// RFC 9420 section 12.1: is this sender allowed to send this proposal type at all?
    fn sender_allowed(&self) -> bool {
        match self.from {
            From::Member => true,
            // custom proposal types are for the application to police (RFC 9420 does not say who may send them)
            From::External => matches!(self.kind, Kind::Add | Kind::Remove | Kind::Psk | Kind::ReInit | Kind::Gce | Kind::Custom),
            From::ExternalUnknown => false,
            From::NewMember | From::NewMemberGenuine => self.kind == Kind::Add,
        }
    }
    fn sender_label(&self) -> &'static str {
        match self.from {
            From::Member => "Member",
            From::External | From::ExternalUnknown => "External",
            From::NewMember | From::NewMemberGenuine => "NewMember",
        }
    }
    fn kind_label(&self) -> &'static str {
        match self.kind {
            Kind::Add => "add",
            Kind::Update => "update",
            Kind::Remove => "remove",
            Kind::Psk => "psk",
            Kind::Gce => "gce",
            Kind::ReInit => "reinit",
            Kind::Custom => "custom",
        }
    }
}

const A: usize = 1;
const X: usize = 3;

fn base_world() -> World {
    let cfg = WorldCfg { external_senders: true, ..Default::default() };
    let mut w = World::new(cfg, 8);
    for p in 0..8 {
        w.set_psk(p, 0, b"psk-zero-value".to_vec());
    }
    let r = w.run(|w| {
        w.create(0)?;
        let b = w.commit(0, &CommitSpec { props: vec![Prop::Add(1), Prop::Add(2), Prop::Add(3), Prop::Add(4)], ..Default::default() })?;
        w.apply(0)?;
        for (x, _) in &b.added {
            w.join(*x, &b.out.welcome_messages[0], None)?;
        }
        // fill the parents so that Updates and Removes meet non-blank nodes
        let b = w.commit(2, &CommitSpec::default())?;
        for p in w.members() {
            if p != 2 {
                w.process(p, &b.out.commit_message)?;
            }
        }
        w.apply(2)?;
        Ok::<(), mls_rs::error::MlsError>(())
    });
    if !matches!(r, Ok(Ok(()))) {
        crate::engine::machinery("C10x base world could not be built");
    }
    w
}

/// The genuine member proposal of a kind, sent by member A on a fork (the fork is dropped).
fn genuine(w: &World, kind: Kind, outsider: usize) -> Option<MlsMessage> {
    let mut f = w.clone();
    let r = f.run(|f| match kind {
        Kind::Add => f.propose(A, &Prop::Add(outsider)).map(|x| x.0),
        Kind::Update => f.propose_update(A),
        Kind::Remove => f.propose(A, &Prop::Remove(X)).map(|x| x.0),
        Kind::Psk => f.propose(A, &Prop::ExternalPsk(0)).map(|x| x.0),
        Kind::Gce => f.propose(A, &Prop::Gce(5)).map(|x| x.0),
        Kind::ReInit => f.propose(A, &Prop::ReInit).map(|x| x.0),
        Kind::Custom => f.propose(A, &Prop::Custom(3)).map(|x| x.0),
    });
    match r {
        Ok(Ok(m)) => Some(m),
        _ => None,
    }
}

/// Re-issue a member's public proposal under another sender.
fn reissue(w: &World, genuine: &MlsMessage, from: From, outsider: usize) -> Option<MlsMessage> {
    let b = genuine.mls_encode_to_vec().ok()?;
    let lay = layout(&b).ok()?;
    let (sender, sig) = (lay.region("sender")?, lay.region("signature")?);
    let mut content = b[4..sender.start].to_vec();
    let (key, cs) = match from {
        From::External | From::ExternalUnknown => {
            content.push(2);
            content.extend_from_slice(&(if from == From::External { 0u32 } else { 1u32 }).to_be_bytes());
            (w.ext_signer.as_ref()?.0.clone(), cs_of(w, 0))
        }
        From::NewMember => {
            content.push(3);
            (w.parties[outsider].signer.clone(), cs_of(w, outsider))
        }
        _ => return None,
    };
    content.extend_from_slice(&b[sender.end..sig.start]);
    // FramedContentTBS of a non-member sender carries no group context
    let mut tbs = b[0..4].to_vec();
    tbs.extend_from_slice(&content);
    let mut sign_content = vec![];
    put_vbytes(&mut sign_content, b"MLS 1.0 FramedContentTBS");
    put_vbytes(&mut sign_content, &tbs);
    let signature = cs.sign(&key, &sign_content).ok()?;
    let mut out = b[0..4].to_vec();
    out.extend_from_slice(&content);
    put_vbytes(&mut out, &signature);
    MlsMessage::mls_decode(&mut &*out).ok()
}

/// A member's public proposal re-issued as external sender 0 (used by checks/c10y.rs).
pub fn reissue_as_external(w: &World, genuine: &MlsMessage) -> Option<MlsMessage> {
    reissue(w, genuine, From::External, 0)
}

pub fn summary(d: &CommitMessageDescription) -> Option<(BTreeMap<String, usize>, BTreeMap<String, usize>)> {
    let ne = match &d.effect {
        CommitEffect::NewEpoch(n) => n,
        CommitEffect::Removed { new_epoch, .. } => new_epoch,
        CommitEffect::ReInit(_) => return None,
    };
    let count = |v: &[mls_rs::mls_rules::ProposalInfo<mls_rs::group::proposal::Proposal>]| {
        let mut m = BTreeMap::new();
        for p in v {
            let kind = match &p.proposal {
                mls_rs::group::proposal::Proposal::Add(_) => "add",
                mls_rs::group::proposal::Proposal::Update(_) => "update",
                mls_rs::group::proposal::Proposal::Remove(_) => "remove",
                mls_rs::group::proposal::Proposal::Psk(_) => "psk",
                mls_rs::group::proposal::Proposal::ReInit(_) => "reinit",
                mls_rs::group::proposal::Proposal::GroupContextExtensions(_) => "gce",
                mls_rs::group::proposal::Proposal::Custom(_) => "custom",
                _ => "other",
            };
            let sender = format!("{:?}", p.sender);
            let sender = sender.split('(').next().unwrap_or("").to_string();
            *m.entry(format!("{kind}|{sender}")).or_insert(0) += 1;
        }
        m
    };
    Some((count(&ne.applied_proposals), count(&ne.unused_proposals)))
}

fn run_case(base: &World, atoms: &[Atom], committer: usize, ctx: &mut Ctx) {
    let label = format!("{atoms:?} committer P{committer}");
    ctx.cur_trail = vec![label.clone()];
    let mut w = base.clone();
    let outsiders = w.outsiders();
    // messages: one outsider per atom so that two Adds do not collide by accident
    let mut msgs: Vec<(Atom, MlsMessage)> = vec![];
    for (i, a) in atoms.iter().enumerate() {
        let o = outsiders[i % outsiders.len()];
        let m = match a.from {
            From::Member => {
                // sent for real by A (it caches its own proposal)
                let r = w.run(|w| match a.kind {
                    Kind::Add => w.propose(A, &Prop::Add(o)).map(|x| x.0),
                    Kind::Update => w.propose_update(A),
                    Kind::Remove => w.propose(A, &Prop::Remove(X)).map(|x| x.0),
                    Kind::Psk => w.propose(A, &Prop::ExternalPsk(0)).map(|x| x.0),
                    Kind::Gce => w.propose(A, &Prop::Gce(5)).map(|x| x.0),
                    Kind::ReInit => w.propose(A, &Prop::ReInit).map(|x| x.0),
                    Kind::Custom => w.propose(A, &Prop::Custom(3)).map(|x| x.0),
                });
                match r {
                    Ok(Ok(m)) => Some(m),
                    Ok(Err(e)) => {
                        ctx.outcome(format!("proposer-refuses:{:?}:{}", a.kind, err_name(&e)));
                        return;
                    }
                    Err(_) => {
                        let (loc, msg, _) = take_panic();
                        ctx.violation(format!("panic|propose|{loc}"), format!("{msg} [{label}]"));
                        return;
                    }
                }
            }
            From::NewMemberGenuine => {
                let gi = w.g(0).group_info_message(true).ok();
                let now = w.now();
                gi.and_then(|gi| w.run(|w| w.parties[o].client.external_add_proposal(&gi, None, vec![], Default::default(), Default::default(), now)).ok().and_then(|r| r.ok()))
            }
            _ => genuine(&w, a.kind, o).and_then(|g| reissue(&w, &g, a.from, o)),
        };
        let Some(m) = m else {
            ctx.outcome(format!("atom-not-constructible:{a:?}"));
            return;
        };
        msgs.push((*a, m));
    }
    // deliver to everybody (A has its own member proposals already)
    let members = w.members();
    let mut verdicts: Vec<Vec<bool>> = vec![];
    for (a, m) in &msgs {
        let mut v = vec![];
        for &p in &members {
            if a.from == From::Member && p == A {
                v.push(true);
                continue;
            }
            ctx.eval();
            match w.run(|w| w.process(p, m)) {
                Ok(Ok(ReceivedMessage::Proposal(_))) => v.push(true),
                Ok(Ok(_)) => {
                    ctx.violation("proposal-reported-as-other-kind", format!("[{label}]"));
                    return;
                }
                Ok(Err(e)) => {
                    ctx.outcome(format!("receipt:{}:{}:{}", a.kind_label(), a.sender_label(), err_name(&e)));
                    v.push(false);
                }
                Err(_) => {
                    let (loc, msg, _) = take_panic();
                    ctx.violation(format!("panic|receive-proposal|{loc}"), format!("{msg} [{label}]"));
                    return;
                }
            }
        }
        if v.iter().any(|x| *x) {
            ctx.outcome(format!("receipt:{}:{:?}:cached", a.kind_label(), a.from));
            if a.from == From::ExternalUnknown {
                ctx.violation(format!("proposal-of-unknown-external-sender-cached|{}", a.kind_label()), format!("a proposal signed by the group's external sender but attributed to sender index 1, which is not in the list, was accepted [{label}]"));
            }
        }
        if v.iter().any(|x| *x) != v.iter().all(|x| *x) {
            ctx.outcome(format!("receipt-verdicts-differ:{}:{:?}", a.kind_label(), a.from));
        }
        verdicts.push(v);
    }
    // commit by reference
    ctx.eval();
    let built = match w.run(|w| w.commit(committer, &CommitSpec::default())) {
        Ok(Ok(b)) => b,
        Ok(Err(e)) => {
            ctx.outcome(format!("build-err:{}", err_name(&e)));
            // only valid atoms cached and nothing can be committed?
            let all_valid = atoms.iter().all(|a| a.sender_allowed());
            let conflict = atoms.iter().any(|a| a.kind == Kind::ReInit) && atoms.len() > 1 || atoms.iter().filter(|a| a.kind == Kind::Gce).count() > 1 || atoms.iter().filter(|a| a.kind == Kind::Psk).count() > 1 || atoms.iter().filter(|a| a.kind == Kind::Remove).count() > 1;
            if all_valid && !conflict {
                ctx.violation(format!("valid-proposals-not-committable|{}", err_name(&e)), format!("{e:?} [{label}]"));
            }
            return;
        }
        Err(_) => {
            let (loc, msg, _) = take_panic();
            ctx.violation(format!("panic|commit|{loc}"), format!("the committer panicked: {msg} [{label}]"));
            return;
        }
    };
    ctx.goal("commit-over-non-member-proposals");
    let msg = built.out.commit_message.clone();
    let ci = members.iter().position(|m| *m == committer).unwrap();
    let mut descs = vec![];
    for (pi, &p) in members.iter().enumerate() {
        if p == committer {
            continue;
        }
        // same cache as the committer?
        let same_cache = verdicts.iter().all(|v| v[pi] == v[ci]);
        ctx.eval();
        match w.run(|w| w.process(p, &msg)) {
            Ok(Ok(ReceivedMessage::Commit(d))) => descs.push((p, d)),
            Ok(Ok(_)) => {}
            Ok(Err(e)) => {
                if same_cache {
                    ctx.violation(format!("receiver-rejects-honest-commit|{}", err_name(&e)), format!("{} (same cached proposals as the committer) rejects the commit: {e:?} [{label}]", w.parties[p].name));
                    return;
                }
                ctx.outcome(format!("receiver-with-other-cache-rejects:{}", err_name(&e)));
            }
            Err(_) => {
                let (loc, m2, _) = take_panic();
                ctx.violation(format!("panic|receive-commit|{loc}"), format!("{m2} [{label}]"));
                return;
            }
        }
    }
    let kd = match w.run(|w| w.apply(committer)) {
        Ok(Ok(d)) => d,
        Ok(Err(e)) => {
            ctx.violation(format!("apply-failed|{}", err_name(&e)), format!("{e:?} [{label}]"));
            return;
        }
        Err(_) => {
            let (loc, m2, _) = take_panic();
            ctx.violation(format!("panic|apply|{loc}"), format!("{m2} [{label}]"));
            return;
        }
    };
    let ks = summary(&kd);
    for (p, d) in &descs {
        ctx.eval();
        if summary(d) != ks {
            ctx.violation("applied-or-unused-proposals-differ", format!("{} reports {:?}, the committer {:?} [{label}]", w.parties[*p].name, summary(d), ks));
        }
        if matches!(d.effect, CommitEffect::NewEpoch(_)) && !matches!(kd.effect, CommitEffect::ReInit(_)) {
            let (e, r) = (ledger_entry(&w, *p), ledger_entry(&w, committer));
            if e.context != r.context || e.authenticator != r.authenticator || e.tree != r.tree {
                ctx.violation("epoch-state-differs-after-commit", format!("{} and the committer disagree on the new epoch [{label}]", w.parties[*p].name));
            }
        }
    }
    if let Some((applied, _unused)) = &ks {
        for a in atoms {
            let key = format!("{}|{}", a.kind_label(), a.sender_label());
            let n = applied.get(&key).copied().unwrap_or(0);
            let allowed_n = atoms.iter().filter(|b| b.kind == a.kind && b.sender_label() == a.sender_label() && b.sender_allowed()).count();
            ctx.eval();
            if n > allowed_n {
                ctx.violation(format!("proposal-with-wrong-sender-applied|{key}"), format!("{n} proposals {key} applied but only {allowed_n} have a sender that RFC 9420 12.1 allows for the type [{label}]"));
            }
            if n > 0 {
                ctx.outcome(format!("applied:{key}"));
                ctx.goal("non-member-proposal-applied");
            }
        }
        // a lone proposal whose sender is allowed is applied
        if atoms.len() == 1 && atoms[0].sender_allowed() && atoms[0].kind != Kind::Custom {
            let total: usize = applied.values().sum();
            if total != 1 && verdicts[0][ci] {
                ctx.violation(format!("valid-proposal-dropped|{}|{}", atoms[0].kind_label(), atoms[0].sender_label()), format!("the only cached proposal has an allowed sender but {total} proposals were applied [{label}]"));
            }
        }
    } else if atoms.iter().any(|a| a.kind == Kind::ReInit) {
        ctx.outcome("commit:reinit");
    }
    ctx.report.traces += 1;
    ctx.extra("states", 1);
    let _ = stores::is_installed();
}

pub fn atoms() -> Vec<Atom> {
    let mut v = vec![];
    for kind in KINDS {
        for from in [From::External, From::ExternalUnknown, From::NewMember] {
            v.push(Atom { kind, from });
        }
    }
    v.push(Atom { kind: Kind::Add, from: From::NewMemberGenuine });
    v
}

pub fn cases(quick: bool) -> Vec<(Vec<Atom>, usize)> {
    let non_member = atoms();
    let member: Vec<Atom> = KINDS.iter().map(|k| Atom { kind: *k, from: From::Member }).collect();
    let mut sets: Vec<Vec<Atom>> = vec![];
    for a in &non_member {
        sets.push(vec![*a]);
        for m in &member {
            sets.push(vec![*a, *m]);
            sets.push(vec![*m, *a]);
        }
    }
    for (i, a) in non_member.iter().enumerate() {
        for b in non_member.iter().skip(if quick { i + 1 } else { i }) {
            if quick && (a.from == From::ExternalUnknown || b.from == From::ExternalUnknown) {
                continue;
            }
            sets.push(vec![*a, *b]);
        }
    }
    let mut out = vec![];
    for s in sets {
        for committer in if quick { vec![0usize] } else { vec![0usize, A, 4] } {
            out.push((s.clone(), committer));
        }
    }
    out
}

pub fn run(ctx: &mut Ctx) {
    let base = base_world();
    for (i, (atoms, committer)) in cases(ctx.quick()).into_iter().enumerate() {
        if ctx.mine(500_000 + i) {
            let r = std::panic::catch_unwind(std::panic::AssertUnwindSafe(|| run_case(&base, &atoms, committer, ctx)));
            ctx.report.transitions += 1;
            if r.is_err() {
                let (loc, msg, lib) = take_panic();
                if lib {
                    ctx.violation(format!("panic|{loc}"), format!("library panicked: {msg} [{atoms:?}]"));
                } else {
                    crate::engine::machinery(&format!("harness panic at {loc}: {msg}"));
                }
            }
        }
    }
    if ctx.shard.0 == 0 {
        ctx.sample(json!({"non_member_atoms": ["Update re-issued as external sender 0", "member Remove"], "committer": "P0", "expect": "the Update is never applied"}));
    }
}
