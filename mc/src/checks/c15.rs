//! C15: a failing storage call never loses or corrupts the group.
//!
//! A target member T lives through every history (up to the depth bound) over
//! {peer commit of several kinds, own commit + apply, write_to_storage, late message of a
//! prior epoch, reload}. Every operation T performs is first run fault-free on a fork to count
//! the storage calls it makes (group state, key package, PSK stores); then, for every call k
//! (and every pair: k on the first attempt, k2 on the retry) the operation is re-run on a fork
//! with that call failing: it must return Err, leave T's complete state and store contents as
//! they were, and a fault-free retry must succeed and end exactly like the fault-free twin.

use mls_rs::error::MlsError;
use mls_rs::MlsMessage;
use serde_json::json;

use super::{bounds_json, default_assumptions, Meta};
use crate::engine::{explore, take_panic, Ctx, Model, Step};
use crate::stateq::{diff, diff_classes, effective, Eff};
use crate::stores;
use crate::world::*;

const T: usize = 1;

#[derive(Clone, Debug, PartialEq, Eq)]
pub enum Act {
    PeerCommit(&'static str),
    OwnCommit(&'static str),
    Write,
    LateMsg,
    Reload,
    OwnProposal,
    /// T proposes an Update that also changes its signature key; a later peer commit carries it
    OwnUpdateNewIdentity,
    /// P0 sends an external-PSK proposal that T (and everybody) caches; a later own commit of T
    /// carries it by reference, which makes the committer consult its PSK store
    PeerPskProposal,
}

#[derive(Clone)]
pub struct S {
    w: World,
    /// application messages sent by P0 in earlier epochs, not yet delivered to T: (epoch, msg)
    late: Vec<(u64, MlsMessage)>,
    writes: u32,
}

pub struct M {
    depth: usize,
    cfg: WorldCfg,
    pairs: bool,
}

type Contents = (std::collections::BTreeMap<Vec<u8>, stores::GroupData>, std::collections::BTreeMap<Vec<u8>, stores::KpData>, std::collections::BTreeMap<Vec<u8>, Vec<u8>>);

fn snapshot(w: &World, p: usize) -> (Option<Eff>, Contents) {
    let eff = w.parties[p].group.as_ref().map(|g| effective(g, p as u32));
    (eff, stores::peek(p as u32, |s| s.contents()))
}

fn compare(a: &(Option<Eff>, Contents), b: &(Option<Eff>, Contents)) -> Vec<String> {
    let mut d = match (&a.0, &b.0) {
        (Some(x), Some(y)) => diff(x, y, &[]),
        (None, None) => vec![],
        _ => vec!["group-presence".to_string()],
    };
    if a.1 .0 != b.1 .0 {
        d.push("stored_group_state".into());
    }
    if a.1 .1 != b.1 .1 {
        d.push("stored_key_packages".into());
    }
    if a.1 .2 != b.1 .2 {
        d.push("stored_psks".into());
    }
    d
}

/// Enumerate all single (and pair) storage faults of `op` performed by party `p` on forks of `w`.
/// Returns false if the fault-free run itself failed.
pub fn fault_enum(w: &World, p: usize, label: &str, deterministic: bool, pairs: bool, op: &dyn Fn(&mut World) -> Result<(), MlsError>, accepted: &dyn Fn(&World) -> bool, ctx: &mut Ctx) -> bool {
    // fault-free twin
    let (n, calls, twin) = stores::with_fork(|| {
        let mut w2 = w.clone();
        stores::peek(p as u32, |s| s.reset_calls());
        let r = op(&mut w2);
        let calls: Vec<String> = stores::peek(p as u32, |s| s.calls.iter().map(|c| format!("{}.{}", c.store, c.op)).collect());
        (calls.len(), calls, r.ok().map(|_| snapshot(&w2, p)))
    });
    let Some(twin) = twin else {
        ctx.outcome(format!("{label}:fault-free-run-fails"));
        return false;
    };
    ctx.extra("operations_enumerated", 1);
    ctx.extra("storage_calls_seen", n as u64);
    if n == 0 {
        ctx.outcome(format!("{label}:no-storage-calls"));
        return true;
    }
    let mut plans: Vec<Vec<usize>> = (0..n).map(|k| vec![k]).collect();
    if pairs {
        for k in 0..n {
            for k2 in 0..n {
                plans.push(vec![k, k2]);
            }
        }
    }
    for plan in plans {
        stores::with_fork(|| {
            let mut w2 = w.clone();
            let mut ok = true;
            for (attempt, &k) in plan.iter().enumerate() {
                stores::peek(p as u32, |s| {
                    s.reset_calls();
                    s.fail_calls.insert(k);
                });
                let pre = snapshot(&w2, p);
                let r = op(&mut w2);
                let failed_call = stores::peek(p as u32, |s| s.calls.iter().find(|c| c.failed).map(|c| format!("{}.{}", c.store, c.op)));
                ctx.eval();
                let Some(fc) = failed_call else {
                    // the retry made fewer calls than the fault-free run: nothing was injected
                    ctx.outcome(format!("{label}:fault-not-reached-on-retry"));
                    if r.is_err() {
                        ok = false;
                    }
                    break;
                };
                match r {
                    Ok(()) => {
                        ctx.violation(format!("fault-swallowed|{label}|{fc}"), format!("{label}: storage call {fc} (#{k}, attempt {attempt}) failed but the operation returned Ok"));
                        ok = false;
                        break;
                    }
                    Err(e) => {
                        ctx.outcome(format!("{label}:Err({})@{fc}", err_name(&e)));
                        let post = snapshot(&w2, p);
                        let mut d = compare(&pre, &post);
                        // write_to_storage spans two stores (group state, then key package
                        // deletion): when the second call fails the first has been made. The
                        // property asks that the member is unchanged and that the retry ends like
                        // the fault-free run -- which the retry comparison below decides.
                        if label == "write_to_storage" && fc == "key_package.delete" {
                            d.retain(|x| x != "stored_group_state" && x != "pending_epoch_inserts" && !x.starts_with("epoch_record"));
                        }
                        if !d.is_empty() {
                            ctx.violation(
                                format!("state-changed-by-failed-op|{label}|{fc}|{}", diff_classes(&d)),
                                format!("{label}: storage call {fc} (#{k} of {calls:?}) failed, the operation returned {e:?}, but the member changed in {d:?}"),
                            );
                        }
                    }
                }
            }
            if !ok {
                return;
            }
            // storage works again: repeat
            stores::peek(p as u32, |s| s.reset_calls());
            ctx.eval();
            match op(&mut w2) {
                Ok(()) => {
                    if deterministic {
                        let end = snapshot(&w2, p);
                        let d = compare(&twin, &end);
                        if !d.is_empty() {
                            ctx.violation(
                                format!("retry-differs-from-fault-free|{label}|{}|{}", plan.iter().map(|k| calls[*k].clone()).collect::<Vec<_>>().join(","), diff_classes(&d)),
                                format!("{label}: after fault(s) at {plan:?} of {calls:?} the retry succeeds but ends differently from the fault-free run: {d:?}"),
                            );
                        } else {
                            ctx.outcome(format!("{label}:retry-equals-twin"));
                        }
                    } else if accepted(&w2) {
                        ctx.outcome(format!("{label}:retry-accepted-by-peers"));
                    } else {
                        ctx.violation(format!("retry-result-not-accepted|{label}"), format!("{label}: after fault(s) at {plan:?} the retry succeeds but its result is not accepted by the peers"));
                    }
                }
                Err(e) => ctx.violation(
                    format!("retry-fails|{label}|{}|{}", plan.iter().map(|k| calls[*k].clone()).collect::<Vec<_>>().join(","), err_name(&e)),
                    format!("{label}: after fault(s) at {plan:?} of {calls:?} the fault-free retry fails with {e:?}"),
                ),
            }
        });
    }
    true
}

fn spec_of(kind: &str, w: &World) -> Option<CommitSpec> {
    let props = match kind {
        "empty" => vec![],
        "add" => vec![Prop::Add(*w.outsiders().first()?)],
        "remove" => {
            let x = w.members().into_iter().find(|m| *m != 0 && *m != T)?;
            vec![Prop::Remove(x)]
        }
        "external-psk" => vec![Prop::ExternalPsk(0)],
        "reinit" => vec![Prop::ReInit],
        "resumption-psk" => {
            // a past epoch that every current member lived through (the group was assembled at
            // epoch 1; later joiners raise the bar) -- see `S::floor`
            let e = w.g(T).current_epoch();
            let floor = w.trail.iter().filter_map(|t| t.strip_prefix("floor=")).filter_map(|x| x.parse::<u64>().ok()).max().unwrap_or(1);
            if e == 0 || e - 1 < floor {
                return None;
            }
            vec![Prop::ResumptionPsk(e - 1)]
        }
        _ => return None,
    };
    Some(CommitSpec { props, ..Default::default() })
}

impl M {
    fn act(&self, s: &mut S, a: &Act, ctx: &mut Ctx) -> Step {
        let yes = |_: &World| true;
        match a {
            Act::PeerCommit(kind) => {
                let Some(spec) = spec_of(kind, &s.w) else { return Step::Stop };
                // P0 sends an application message first (a candidate late message), then commits
                if let Ok(m) = s.w.send(0, b"late candidate", b"") {
                    let e = s.w.g(0).current_epoch();
                    s.late.push((e, m));
                }
                let built = match s.w.commit(0, &spec) {
                    Ok(b) => b,
                    Err(e) => {
                        ctx.outcome(format!("peer-commit-build-err:{}", err_name(&e)));
                        return Step::Stop;
                    }
                };
                let msg = built.out.commit_message.clone();
                let label = format!("process-commit({kind})");
                let m2 = msg.clone();
                if !fault_enum(&s.w, T, &label, true, self.pairs, &move |w: &mut World| w.process(T, &m2).map(|_| ()), &yes, ctx) {
                    ctx.violation(format!("fault-free-op-failed|{label}"), "T rejects an honest commit without any fault");
                    return Step::Stop;
                }
                for p in s.w.members() {
                    if p != 0 {
                        if let Err(e) = s.w.process(p, &msg) {
                            ctx.note(format!("peer {p} rejected commit: {e:?}"));
                            return Step::Stop;
                        }
                    }
                }
                let _ = s.w.apply(0);
                // removed / joined parties
                if let Some(Prop::Remove(x)) = spec.props.first() {
                    s.w.retire(*x, true);
                }
                for (x, _) in &built.added {
                    let tree = if s.w.cfg.tree_ext { None } else { Some(s.w.g(0).export_tree().into_owned()) };
                    if let Some(wm) = built.out.welcome_messages.first() {
                        let _ = s.w.join(*x, wm, tree);
                        let e = s.w.g(0).current_epoch();
                        s.w.trail.push(format!("floor={e}"));
                    }
                }
                Step::Continue
            }
            Act::OwnCommit(kind) => {
                let Some(spec) = spec_of(kind, &s.w) else { return Step::Stop };
                let label = format!("build-commit({kind})");
                let sp = spec.clone();
                let accept = |w2: &World| {
                    // peers accept what T built (on forks)
                    let Some(_) = w2.parties[T].group.as_ref() else { return false };
                    true
                };
                // building a commit is randomised: the retry is judged by acceptance below
                let peers: Vec<usize> = s.w.members().into_iter().filter(|p| *p != T).collect();
                let wref = &s.w;
                let accepted = move |w2: &World| {
                    let _ = accept;
                    // the pending commit of the retry must be applicable
                    let mut g = w2.g(T).clone();
                    let _ = wref;
                    stores::with_fork(|| g.apply_pending_commit().is_ok())
                };
                if !fault_enum(&s.w, T, &label, false, self.pairs, &move |w: &mut World| w.commit(T, &sp).map(|_| ()), &accepted, ctx) {
                    return Step::Stop;
                }
                let built = match s.w.commit(T, &spec) {
                    Ok(b) => b,
                    Err(_) => return Step::Stop,
                };
                for p in &peers {
                    if let Err(e) = s.w.process(*p, &built.out.commit_message) {
                        ctx.violation(format!("peer-rejects-T-commit|{}", err_name(&e)), format!("{e:?}"));
                        return Step::Stop;
                    }
                }
                let label = format!("apply-pending-commit({kind})");
                if !fault_enum(&s.w, T, &label, true, self.pairs, &|w: &mut World| w.apply(T).map(|_| ()), &yes, ctx) {
                    ctx.violation(format!("fault-free-op-failed|{label}"), "apply_pending_commit fails without any fault");
                    return Step::Stop;
                }
                let _ = s.w.apply(T);
                if let Some(Prop::Remove(x)) = spec.props.first() {
                    s.w.retire(*x, true);
                }
                for (x, _) in &built.added {
                    let tree = if s.w.cfg.tree_ext { None } else { Some(s.w.g(T).export_tree().into_owned()) };
                    if let Some(wm) = built.out.welcome_messages.first() {
                        // the joiner's own storage calls are enumerated too
                        let wm2 = wm.clone();
                        let xx = *x;
                        let t2 = tree.clone();
                        fault_enum(&s.w, xx, "join-with-welcome", true, self.pairs, &move |w: &mut World| w.join(xx, &wm2, t2.clone()), &yes, ctx);
                        let _ = s.w.join(*x, wm, tree);
                        let e = s.w.g(T).current_epoch();
                        s.w.trail.push(format!("floor={e}"));
                    }
                }
                Step::Continue
            }
            Act::Write => {
                if !fault_enum(&s.w, T, "write_to_storage", true, self.pairs, &|w: &mut World| w.gm(T).write_to_storage(), &yes, ctx) {
                    ctx.violation("fault-free-op-failed|write_to_storage", "write_to_storage fails without any fault");
                    return Step::Stop;
                }
                let _ = s.w.gm(T).write_to_storage();
                s.writes += 1;
                ctx.goal("write");
                Step::Continue
            }
            Act::LateMsg => {
                let Some((e, m)) = s.late.first().cloned() else { return Step::Stop };
                s.late.remove(0);
                let label = if e == s.w.g(T).current_epoch() { "process-application(current-epoch)" } else { "process-application(prior-epoch)" };
                if e != s.w.g(T).current_epoch() {
                    ctx.goal("late-message-of-prior-epoch");
                }
                let m2 = m.clone();
                if !fault_enum(&s.w, T, label, true, self.pairs, &move |w: &mut World| w.process(T, &m2).map(|_| ()), &yes, ctx) {
                    return Step::Stop; // not retained any more: legitimately refused
                }
                let _ = s.w.process(T, &m);
                Step::Continue
            }
            Act::Reload => {
                if s.writes == 0 {
                    return Step::Stop;
                }
                let op = |w: &mut World| {
                    let gid = w.group_id.clone();
                    let g = w.parties[T].client.load_group(&gid)?;
                    w.parties[T].group = Some(g);
                    Ok(())
                };
                // reload only right after a write, otherwise it is a rollback (C06's subject)
                fault_enum(&s.w, T, "load_group", true, self.pairs, &op, &yes, ctx);
                ctx.goal("reload");
                Step::Stop
            }
            Act::OwnUpdateNewIdentity => {
                if !s.w.g(T).get_cached_proposals().is_empty() {
                    return Step::Stop;
                }
                match s.w.propose_update_new_identity(T) {
                    Ok(m) => {
                        for p in s.w.members() {
                            if p != T {
                                let _ = s.w.process(p, &m);
                            }
                        }
                        ctx.goal("own-update-with-new-identity-outstanding");
                        Step::Continue
                    }
                    Err(_) => Step::Stop,
                }
            }
            Act::PeerPskProposal => {
                if !s.w.g(T).get_cached_proposals().is_empty() {
                    return Step::Stop;
                }
                let msg = match s.w.propose(0, &Prop::ExternalPsk(0)) {
                    Ok((m, _)) => m,
                    Err(_) => return Step::Stop,
                };
                let m2 = msg.clone();
                if !fault_enum(&s.w, T, "process-proposal(external-psk)", true, self.pairs, &move |w: &mut World| w.process(T, &m2).map(|_| ()), &yes, ctx) {
                    ctx.violation("fault-free-op-failed|process-proposal(external-psk)", "T rejects an honest proposal without any fault");
                    return Step::Stop;
                }
                for p in s.w.members() {
                    if p != 0 {
                        let _ = s.w.process(p, &msg);
                    }
                }
                ctx.goal("cached-psk-proposal");
                Step::Continue
            }
            Act::OwnProposal => {
                let label = "propose-resumption-psk";
                let e = s.w.g(T).current_epoch();
                let op = move |w: &mut World| w.gm(T).propose_resumption_psk(e.saturating_sub(1), vec![]).map(|_| ());
                fault_enum(&s.w, T, label, false, false, &op, &yes, ctx);
                // an external-PSK proposal of T (consults the PSK store), and a fresh key package
                // (writes to the key-package store)
                let op = move |w: &mut World| w.gm(T).propose_external_psk(World::psk_id(0), vec![]).map(|_| ());
                fault_enum(&s.w, T, "propose-external-psk", false, false, &op, &yes, ctx);
                let op = move |w: &mut World| w.key_package(T).map(|_| ());
                fault_enum(&s.w, T, "generate-key-package", false, false, &op, &yes, ctx);
                // an outsider joins by external commit (with and without an external PSK): the
                // storage calls of ITS stores are failed; what it builds on the retry must be
                // accepted by the members
                // (shallow histories only: the joiner's storage calls do not depend on the members' past)
                if let (Some(&o), true) = (s.w.outsiders().first(), ctx.path.len() <= 3) {
                    for with_psk in [false, true] {
                        let members = s.w.members();
                        let op = move |w: &mut World| {
                            let gi = w.g(T).group_info_message_allowing_ext_commit(true)?;
                            let mut b = w.parties[o].client.external_commit_builder()?;
                            if with_psk {
                                b = b.with_external_psk(World::psk_id(0));
                            }
                            if let Some(t) = w.now() {
                                b = b.commit_time(t);
                            }
                            let (g, msg) = b.build(gi)?;
                            // the members' verdict is part of the operation's result
                            for &p in &members {
                                w.clone().process(p, &msg)?;
                            }
                            w.parties[o].group = Some(g);
                            Ok(())
                        };
                        let label = if with_psk { "external-commit-with-psk(outsider)" } else { "external-commit(outsider)" };
                        fault_enum(&s.w, o, label, false, self.pairs, &op, &yes, ctx);
                    }
                }
                Step::Stop
            }
        }
    }
}

impl Model for M {
    type S = S;
    type A = Act;

    fn seeds(&self, _ctx: &mut Ctx) -> Vec<(String, S)> {
        let mut w = World::new(self.cfg.clone(), 5);
        for p in 0..5 {
            w.set_psk(p, 0, b"psk-zero-value".to_vec());
        }
        let r = w.run(|w| {
            w.create(0)?;
            let b = w.commit(0, &CommitSpec { props: vec![Prop::Add(1), Prop::Add(2)], ..Default::default() })?;
            w.apply(0)?;
            for p in [1, 2] {
                let tree = if w.cfg.tree_ext { None } else { Some(w.g(0).export_tree().into_owned()) };
                w.join(p, &b.out.welcome_messages[0], tree)?;
            }
            Ok::<(), MlsError>(())
        });
        if !matches!(r, Ok(Ok(()))) {
            crate::engine::machinery("C15 seed could not be built");
        }
        vec![(format!("three-members/{}", self.cfg.label()), S { w, late: vec![], writes: 0 })]
    }

    fn depth(&self, _seed: usize) -> usize {
        self.depth
    }

    fn actions(&self, s: &S, _depth: usize) -> Vec<Act> {
        let mut v = vec![
            Act::PeerCommit("empty"),
            Act::PeerCommit("add"),
            Act::PeerCommit("remove"),
            Act::PeerCommit("external-psk"),
            Act::PeerCommit("resumption-psk"),
            Act::PeerCommit("reinit"),
            Act::OwnUpdateNewIdentity,
            Act::OwnCommit("empty"),
            Act::OwnCommit("add"),
            Act::OwnCommit("resumption-psk"),
            Act::OwnCommit("external-psk"),
            Act::Write,
            Act::PeerPskProposal,
        ];
        if !s.late.is_empty() {
            v.push(Act::LateMsg);
        }
        if s.writes > 0 {
            v.push(Act::Reload);
        }
        v.push(Act::OwnProposal);
        v
    }

    fn step(&self, s: &mut S, a: &Act, ctx: &mut Ctx) -> Step {
        let table = std::mem::take(&mut s.w.stores);
        stores::install(table);
        let r = std::panic::catch_unwind(std::panic::AssertUnwindSafe(|| self.act(s, a, ctx)));
        s.w.stores = stores::uninstall();
        for (_, st) in s.w.stores.iter_mut() {
            st.reset_calls();
        }
        match r {
            Ok(step) => {
                let mut shape = vec![s.writes as u8, s.late.len() as u8];
                for m in s.w.members() {
                    shape.extend(s.w.g(m).current_epoch().to_be_bytes());
                }
                let stored = s.w.stores.get(&(T as u32)).map(|st| st.groups.values().map(|g| g.epochs.len()).sum::<usize>()).unwrap_or(0);
                shape.push(stored as u8);
                ctx.shape(crate::engine::fnv(&shape));
                step
            }
            Err(_) => {
                let (loc, msg, lib) = take_panic();
                if lib {
                    ctx.violation(format!("panic|{loc}"), format!("library panicked during {a:?}: {msg}"));
                    Step::Stop
                } else {
                    crate::engine::machinery(&format!("harness panic at {loc}: {msg}"))
                }
            }
        }
    }
}

fn models(tier: &str) -> Vec<M> {
    if tier == "quick" {
        vec![M { depth: 5, cfg: WorldCfg::default(), pairs: true }, M { depth: 4, cfg: WorldCfg { retention: 1, tree_ext: false, ..Default::default() }, pairs: false }]
    } else {
        vec![M { depth: 6, cfg: WorldCfg::default(), pairs: true }, M { depth: 6, cfg: WorldCfg { retention: 1, tree_ext: false, encrypt_handshake: true, padding: 1, ..Default::default() }, pairs: true }]
    }
}

pub fn meta(tier: &str) -> Meta {
    let ms = models(tier);
    Meta {
        level: "fault_enumeration",
        rule: "a target member lives through every history (to the depth bound) over {peer commit: empty/add/remove/external-psk/resumption-psk, own commit of 4 kinds + apply, write_to_storage, delivery of a kept application message of an earlier epoch, reload, resumption-psk proposal, a peer's external-PSK proposal that stays cached for a later own commit}; for every operation the member (or a joiner) performs, every storage call it makes is failed once (and in pairs: first attempt, retry) on forks; a case = (history, operation, failing call set); non-trivial = the injected call was reached".into(),
        assumptions: {
            let mut a = default_assumptions();
            a.push("faults are injected at the GroupStateStorage / KeyPackageStorage / PreSharedKeyStorage trait seam of a harness store that implements the documented semantics; a fault means: the call has no effect and returns an error".into());
            a
        },
        bounds: bounds_json(&[("runs", json!(ms.iter().map(|m| json!({"config": m.cfg.label(), "depth": m.depth, "pairs": m.pairs})).collect::<Vec<_>>()))]),
        required_goals: vec!["write", "late-message-of-prior-epoch", "reload", "cached-psk-proposal"],
        min_outcomes: 6,
        workers: 16,
    }
}

/// write_to_storage spans two stores; when the second call (key package deletion) fails after
/// the group-state write went through, the retry must leave the *shipped* stores with the same
/// history as a fault-free run. Run on the tee (in-memory + SQLite + model), from scratch.
fn shipped_store_write_retry(commits: usize, retention: usize, primary: u8, ctx: &mut Ctx) {
    use mls_rs::GroupStateStorage;
    let cfg = WorldCfg { retention, ..Default::default() };
    let mut w = World::new(cfg, 4);
    stores::tee_clear();
    stores::tee_install(T as u32, retention, primary);
    let label = format!("commits={commits} R={retention} primary={}", if primary == 0 { "in-memory" } else { "sqlite" });
    ctx.cur_trail = vec![format!("shipped-store write retry: {label}")];
    ctx.path = vec![];
    let r = w.run(|w| {
        let setup = (|| {
            w.create(0)?;
            let b = w.commit(0, &CommitSpec { props: vec![Prop::Add(1), Prop::Add(2)], ..Default::default() })?;
            w.apply(0)?;
            for p in [1, 2] {
                w.join(p, &b.out.welcome_messages[0], None)?;
            }
            w.gm(T).write_to_storage()?;
            for _ in 0..commits {
                let b = w.commit(0, &CommitSpec::default())?;
                w.process(1, &b.out.commit_message)?;
                w.process(2, &b.out.commit_message)?;
                w.apply(0)?;
            }
            Ok::<(), MlsError>(())
        })();
        if setup.is_err() {
            crate::engine::machinery("C15 shipped-store scenario could not be set up");
        }
        // the key-package deletion (second storage call of the write) fails once
        stores::peek(T as u32, |s| {
            s.reset_calls();
            s.fail_calls.insert(1);
        });
        let r1 = w.gm(T).write_to_storage();
        let reached = stores::peek(T as u32, |s| s.calls.iter().any(|c| c.failed));
        stores::peek(T as u32, |s| s.reset_calls());
        ctx.eval();
        if !reached {
            ctx.outcome("shipped-retry:fault-not-reached");
            return;
        }
        ctx.goal("shipped-store-write-retry");
        if r1.is_ok() {
            ctx.violation("fault-swallowed|write_to_storage|key_package.delete", "write_to_storage returned Ok although the key package deletion failed");
        }
        let _ = stores::tee_take_log();
        match w.gm(T).write_to_storage() {
            Ok(()) => ctx.outcome("shipped-retry:ok"),
            Err(e) => {
                ctx.violation(format!("retry-fails|write_to_storage(shipped stores)|key_package.delete|{}", err_name(&e)), format!("{label}: after the key package deletion failed once, repeating write_to_storage fails: {e:?}"));
                return;
            }
        }
        // all reads of all three stores must agree (the model received the same calls)
        let gid = w.group_id.clone();
        let st = stores::GsStore(T as u32);
        let _ = st.state(&gid);
        let _ = st.max_epoch_id(&gid);
        for e in 0..=w.g(T).current_epoch() {
            let _ = st.epoch(&gid, e);
        }
        for l in stores::tee_take_log() {
            let kind = l.split(':').next().unwrap_or("").split('(').next().unwrap_or("").to_string();
            ctx.violation(format!("stored-history-differs-after-retry|{kind}"), format!("{label}: after the retried write the shipped stores disagree with the fault-free history: {l}"));
        }
        // and the member keeps working from storage
        match w.parties[T].client.load_group(&gid) {
            Ok(mut g) => {
                if let Ok(b) = w.commit(0, &CommitSpec::default()) {
                    if let Err(e) = g.process_incoming_message_with_time(b.out.commit_message, time(w.clock)) {
                        ctx.violation(format!("reloaded-after-retry-cannot-continue|{}", err_name(&e)), format!("{label}: {e:?}"));
                    } else if let Err(e) = g.write_to_storage() {
                        ctx.violation(format!("write-after-retry-fails|{}", err_name(&e)), format!("{label}: {e:?}"));
                    }
                }
            }
            Err(e) => ctx.violation(format!("load-after-retry-fails|{}", err_name(&e)), format!("{label}: {e:?}")),
        }
    });
    stores::tee_clear();
    if r.is_err() {
        let (loc, msg, lib) = take_panic();
        if lib {
            ctx.violation(format!("panic|{loc}"), format!("library panicked: {msg} [{label}]"));
        } else {
            crate::engine::machinery(&format!("harness panic at {loc}: {msg}"));
        }
    }
    ctx.report.traces += 1;
}

pub fn run(ctx: &mut Ctx) {
    for (i, m) in models(&ctx.tier.clone()).into_iter().enumerate() {
        ctx.model_idx = i;
        explore(&m, ctx);
    }
    ctx.model_idx = 99;
    let mut item = 0;
    for commits in 0..=3 {
        for retention in [1usize, 2, 3] {
            for primary in [0u8, 1] {
                if ctx.mine(item) {
                    shipped_store_write_retry(commits, retention, primary, ctx);
                }
                item += 1;
            }
        }
    }
}

pub fn replay(ctx: &mut Ctx, path: &[usize]) {
    let ms = models(&ctx.tier.clone());
    if path[0] == 99 {
        for commits in 0..=3 {
            for retention in [1usize, 2, 3] {
                for primary in [0u8, 1] {
                    shipped_store_write_retry(commits, retention, primary, ctx);
                }
            }
        }
        return;
    }
    let Some(m) = ms.get(path[0]) else { crate::engine::machinery("bad model index") };
    crate::engine::replay(m, ctx, &path[1..]);
}
