//! C11: pending commits do not change the group until applied; one successor per epoch.
//!
//! Three members race in one epoch. Every interleaving of commit / commit_detached / clear /
//! apply / apply_detached(any kept secrets) / delivery of own and foreign commits, with the
//! delivery service free to pick any candidate as the epoch's winner, is executed against a
//! reference machine per member {epoch, pending}.

use mls_rs::group::{CommitEffect, CommitSecrets, ReceivedMessage};
use mls_rs::MlsMessage;
use serde_json::json;

use super::{bounds_json, default_assumptions, Meta};
use crate::engine::{explore, take_panic, Ctx, Model, Step};
use crate::oracles::ledger_observe;
use crate::stateq::{diff, diff_classes, effective};
use crate::stores;
use crate::world::*;

#[derive(Clone, Debug, PartialEq, Eq)]
pub enum Act {
    Commit(usize),
    CommitAdd(usize),
    CommitDetached(usize),
    Clear(usize),
    Apply(usize),
    ApplyDetached(usize, usize),
    /// member processes candidate commit i
    Deliver(usize, usize),
    Propose(usize),
}

#[derive(Clone)]
pub struct Cand {
    by: usize,
    epoch: u64,
    msg: MlsMessage,
    detached: bool,
    welcome: Option<(usize, MlsMessage)>,
}

#[derive(Clone)]
pub struct Kept {
    by: usize,
    epoch: u64,
    secrets: Vec<u8>,
    cand: usize,
    applied: bool,
}

#[derive(Clone)]
pub struct S {
    w: World,
    cands: Vec<Cand>,
    kept: Vec<Kept>,
    /// epoch -> index of the winning candidate
    winner: std::collections::BTreeMap<u64, usize>,
    /// reference machine: per party, index of the candidate that is its pending commit
    pending: Vec<Option<usize>>,
    /// (member, epoch) pairs where the member missed a proposal sent in that epoch because it
    /// had not reached the epoch yet
    missed: std::collections::BTreeSet<(usize, u64)>,
}

pub struct M {
    depth: usize,
    cfg: WorldCfg,
}

impl M {
    fn unchanged(&self, w: &World, m: usize, pre: &crate::stateq::Eff, what: &str, ignore: &[&str], ctx: &mut Ctx) {
        let post = effective(w.g(m), m as u32);
        let d = diff(pre, &post, ignore);
        ctx.eval();
        if !d.is_empty() {
            ctx.violation(format!("state-changed|{what}|{}", diff_classes(&d)), format!("{}: {what} changed the state in {d:?}", w.parties[m].name));
        }
    }

    fn act(&self, s: &mut S, a: &Act, ctx: &mut Ctx) -> Step {
        match a.clone() {
            Act::Commit(m) | Act::CommitAdd(m) | Act::CommitDetached(m) => {
                let detached = matches!(a, Act::CommitDetached(_));
                let add = matches!(a, Act::CommitAdd(_));
                let pre = effective(s.w.g(m), m as u32);
                let e0 = s.w.g(m).current_epoch();
                let had_pending = s.pending[m].is_some();
                let outsider = s.w.outsiders().first().copied();
                let kp = if add { outsider.and_then(|o| s.w.key_package(o).ok().map(|k| (o, k))) } else { None };
                let g = s.w.gm(m);
                let r: Result<(MlsMessage, Option<CommitSecrets>, Vec<MlsMessage>), _> = if detached {
                    g.commit_detached(vec![]).map(|(o, sec)| (o.commit_message, Some(sec), o.welcome_messages))
                } else if let Some((_, k)) = &kp {
                    g.commit_builder().commit_time(time(*CLOCK0)).add_member(k.clone()).and_then(|b| b.build()).map(|o| (o.commit_message, None, o.welcome_messages))
                } else {
                    g.commit(vec![]).map(|o| (o.commit_message, None, o.welcome_messages))
                };
                ctx.eval();
                match r {
                    Ok((msg, sec, welcomes)) => {
                        if had_pending {
                            ctx.violation("second-pending-commit-accepted", format!("{} built a commit while another one was pending", s.w.parties[m].name));
                            return Step::Stop;
                        }
                        ctx.outcome(if detached { "commit_detached:ok" } else { "commit:ok" });
                        if s.w.g(m).current_epoch() != e0 {
                            ctx.violation("commit-moved-epoch", "building a commit changed the epoch");
                        }
                        // with encrypted handshake messages sending consumes one generation of the
                        // committer's own handshake ratchet: legitimately different
                        let ignore: &[&str] = match (detached, self.cfg.encrypt_handshake) {
                            (true, false) => &[],
                            (false, false) => &["pending_commit"],
                            (true, true) => &["epoch_secrets"],
                            (false, true) => &["pending_commit", "epoch_secrets"],
                        };
                        self.unchanged(&s.w, m, &pre, if detached { "commit_detached" } else { "commit" }, ignore, ctx);
                        if s.w.g(m).has_pending_commit() == detached {
                            ctx.violation("has_pending_commit-wrong", format!("has_pending_commit() = {} after {a:?}", !detached));
                        }
                        let ci = s.cands.len();
                        s.cands.push(Cand { by: m, epoch: e0, msg, detached, welcome: kp.and_then(|(o, _)| welcomes.first().map(|wm| (o, wm.clone()))) });
                        if let Some(sec) = sec {
                            s.kept.push(Kept { by: m, epoch: e0, secrets: sec.to_bytes().expect("MACHINERY: secrets"), cand: ci, applied: false });
                        } else {
                            s.pending[m] = Some(ci);
                        }
                        self.still_reads_traffic(&s.w, m, ctx);
                        Step::Continue
                    }
                    Err(e) => {
                        let n = err_name(&e);
                        if had_pending && n == "ExistingPendingCommit" {
                            ctx.outcome("commit:ExistingPendingCommit(expected)");
                            self.unchanged(&s.w, m, &pre, "refused-second-commit", &[], ctx);
                        } else {
                            ctx.violation(format!("commit-failed|{n}"), format!("{}: {a:?} failed with {e:?} (pending before: {had_pending})", s.w.parties[m].name));
                        }
                        Step::Stop
                    }
                }
            }
            Act::Clear(m) => {
                s.w.gm(m).clear_pending_commit();
                s.pending[m] = None;
                ctx.eval();
                if s.w.g(m).has_pending_commit() {
                    ctx.violation("clear-did-not-clear", "has_pending_commit() after clear_pending_commit()");
                }
                // clearing restores the ability to build another
                let ok = stores::with_fork(|| s.w.g(m).clone().commit(vec![]).is_ok());
                if !ok {
                    ctx.violation("cannot-commit-after-clear", "commit() fails after clear_pending_commit()");
                } else {
                    ctx.outcome("clear:then-commit-possible");
                }
                Step::Continue
            }
            Act::Apply(m) => {
                let pre = effective(s.w.g(m), m as u32);
                let e0 = s.w.g(m).current_epoch();
                let r = s.w.gm(m).apply_pending_commit();
                ctx.eval();
                match (r, s.pending[m]) {
                    (Ok(_), Some(ci)) => {
                        s.pending[m] = None;
                        s.winner.insert(e0, ci);
                        self.advanced(s, m, e0, "apply_pending_commit", ctx);
                        Step::Continue
                    }
                    (Ok(_), None) => {
                        ctx.violation("apply-without-pending-succeeded", "apply_pending_commit() succeeded although nothing was pending");
                        Step::Stop
                    }
                    (Err(e), None) => {
                        ctx.outcome(format!("apply-without-pending:{}", err_name(&e)));
                        self.unchanged(&s.w, m, &pre, "apply-without-pending", &[], ctx);
                        Step::Stop
                    }
                    (Err(e), Some(_)) => {
                        ctx.violation(format!("apply-pending-failed|{}", err_name(&e)), format!("apply_pending_commit failed: {e:?}"));
                        Step::Stop
                    }
                }
            }
            Act::ApplyDetached(m, ki) => {
                let k = s.kept[ki].clone();
                let pre = effective(s.w.g(m), m as u32);
                let e0 = s.w.g(m).current_epoch();
                let fresh = k.epoch == e0 && !k.applied;
                let sec = CommitSecrets::from_bytes(&k.secrets).expect("MACHINERY: secrets decode");
                let r = s.w.gm(m).apply_detached_commit(sec);
                ctx.eval();
                match (r, fresh) {
                    (Ok(_), true) => {
                        s.kept[ki].applied = true;
                        s.winner.insert(e0, k.cand);
                        ctx.outcome("apply_detached:fresh-ok");
                        // a pending commit built for the old epoch must not survive
                        if s.w.g(m).has_pending_commit() {
                            ctx.violation("stale-pending-commit-survives-detached-apply", format!("{} still holds the pending commit of epoch {e0} after moving to epoch {}", s.w.parties[m].name, e0 + 1));
                        }
                        s.pending[m] = None;
                        self.advanced(s, m, e0, "apply_detached_commit", ctx);
                        Step::Continue
                    }
                    (Ok(_), false) => {
                        ctx.violation(
                            if k.applied { "detached-commit-applied-twice" } else { "stale-detached-commit-applied" },
                            format!("{} at epoch {e0} applied detached commit secrets built in epoch {} (applied before: {}); now at epoch {}", s.w.parties[m].name, k.epoch, k.applied, s.w.g(m).current_epoch()),
                        );
                        Step::Stop
                    }
                    (Err(e), false) => {
                        ctx.outcome(format!("apply_detached:stale-refused:{}", err_name(&e)));
                        self.unchanged(&s.w, m, &pre, "refused-stale-detached", &[], ctx);
                        Step::Stop
                    }
                    (Err(e), true) => {
                        ctx.violation(format!("apply-detached-failed|{}", err_name(&e)), format!("fresh detached commit refused: {e:?}"));
                        Step::Stop
                    }
                }
            }
            Act::Deliver(m, ci) => {
                let c = s.cands[ci].clone();
                let pre = effective(s.w.g(m), m as u32);
                let e0 = s.w.g(m).current_epoch();
                let own_pending = s.pending[m] == Some(ci);
                let r = s.w.process(m, &c.msg);
                ctx.eval();
                let right_epoch = c.epoch == e0;
                match r {
                    Ok(ReceivedMessage::Commit(d)) => {
                        if !right_epoch {
                            ctx.violation("commit-of-other-epoch-accepted", format!("{} at epoch {e0} accepted a commit for epoch {}", s.w.parties[m].name, c.epoch));
                            return Step::Stop;
                        }
                        // (a member may process its own path-less commit like anybody else after
                        // having cleared the pending one; the ledger decides whether the result is right)
                        ctx.outcome(if own_pending { "deliver:own-echo-applied" } else if c.by == m { "deliver:own-commit-reprocessed-without-pending" } else { "deliver:foreign-accepted" });
                        if s.w.g(m).has_pending_commit() {
                            ctx.violation("pending-survives-epoch-change", format!("{} still has a pending commit after processing a commit", s.w.parties[m].name));
                        }
                        if s.pending[m].is_some() && !own_pending {
                            ctx.goal("lost-race");
                        }
                        s.pending[m] = None;
                        s.winner.insert(e0, ci);
                        if matches!(d.effect, CommitEffect::NewEpoch(_)) {
                            self.advanced(s, m, e0, "deliver", ctx);
                        }
                        Step::Continue
                    }
                    Ok(_) => {
                        ctx.violation("commit-reported-as-other-kind", "commit reported as another kind");
                        Step::Stop
                    }
                    Err(e) => {
                        let n = err_name(&e);
                        if !right_epoch {
                            ctx.outcome(format!("deliver:wrong-epoch-refused:{n}"));
                            self.unchanged(&s.w, m, &pre, "refused-commit-of-other-epoch", &[], ctx);
                        } else if c.by == m {
                            ctx.outcome(format!("deliver:own-without-pending-refused:{n}"));
                            self.unchanged(&s.w, m, &pre, "refused-own-commit", &[], ctx);
                        } else if n == "ProposalNotFound" && s.missed.contains(&(m, c.epoch)) {
                            // the proposal was sent while this member was still in the previous epoch
                            ctx.outcome("deliver:commit-references-proposal-the-member-missed");
                            // (the consumed handshake ratchet key of an encrypted commit is C04's finding F-C04-2, not C11's subject)
                            self.unchanged(&s.w, m, &pre, "refused-commit-with-missed-proposal", &["epoch_secrets"], ctx);
                        } else {
                            ctx.violation(format!("foreign-commit-refused|{n}"), format!("{} refuses the winning commit of {}: {e:?}", s.w.parties[m].name, s.w.parties[c.by].name));
                        }
                        Step::Stop
                    }
                }
            }
            Act::Propose(m) => {
                let r = s.w.gm(m).propose_group_context_extensions(custom_ext(m as u8 + 1), vec![]);
                match r {
                    Ok(msg) => {
                        let e = s.w.g(m).current_epoch();
                        for p in s.w.members() {
                            if p != m && s.w.g(p).current_epoch() == e {
                                let _ = s.w.process(p, &msg);
                            } else if p != m {
                                s.missed.insert((p, e));
                            }
                        }
                        Step::Continue
                    }
                    Err(_) => Step::Stop,
                }
            }
        }
    }

    /// While a commit is pending the member still reads traffic of its epoch.
    fn still_reads_traffic(&self, w: &World, m: usize, ctx: &mut Ctx) {
        let Some(p) = w.members().into_iter().find(|p| *p != m && w.g(*p).current_epoch() == w.g(m).current_epoch()) else { return };
        let mut gp = w.g(p).clone();
        let Ok(msg) = gp.encrypt_application_message(b"while pending", vec![]) else { return };
        let mut gm = w.g(m).clone();
        ctx.eval();
        match gm.process_incoming_message_with_time(msg, time(w.clock)) {
            Ok(_) => ctx.outcome("reads-traffic-while-pending"),
            Err(e) => ctx.violation(format!("cannot-read-while-pending|{}", err_name(&e)), format!("{} cannot decrypt traffic of its epoch while a commit is pending: {e:?}", w.parties[m].name)),
        }
    }

    /// m moved from e0 to e0+1: by exactly one, agreeing with everyone else who got there.
    fn advanced(&self, s: &mut S, m: usize, e0: u64, how: &str, ctx: &mut Ctx) {
        if s.w.g(m).current_epoch() != e0 + 1 {
            ctx.violation("epoch-not-plus-one", format!("{how}: epoch went from {e0} to {}", s.w.g(m).current_epoch()));
        }
        // ledger: identical to what the others reach through the same commit
        let before = ctx.report.violations.len();
        ctx.property = "C01".into();
        ledger_observe(&mut s.w, m, how, ctx);
        ctx.property = "C11".into();
        for v in ctx.report.violations.iter_mut().skip(before) {
            v.property = "C11".into();
        }
    }
}

impl Model for M {
    type S = S;
    type A = Act;

    fn seeds(&self, _ctx: &mut Ctx) -> Vec<(String, S)> {
        let mut w = World::new(self.cfg.clone(), 4);
        let r = w.run(|w| {
            w.create(0)?;
            let b = w.commit(0, &CommitSpec { props: vec![Prop::Add(1), Prop::Add(2)], ..Default::default() })?;
            w.apply(0)?;
            for p in [1, 2] {
                let tree = if w.cfg.tree_ext { None } else { Some(w.g(0).export_tree().into_owned()) };
                w.join(p, &b.out.welcome_messages[0], tree)?;
            }
            // fill the parents so that nobody is unmerged
            for by in [1usize, 2] {
                let b = w.commit(by, &CommitSpec::default())?;
                for p in 0..3 {
                    if p != by {
                        w.process(p, &b.out.commit_message)?;
                    }
                }
                w.apply(by)?;
            }
            Ok::<(), mls_rs::error::MlsError>(())
        });
        if !matches!(r, Ok(Ok(()))) {
            crate::engine::machinery("C11 seed could not be built");
        }
        vec![(format!("three-members/{}", self.cfg.label()), S { w, cands: vec![], kept: vec![], winner: Default::default(), pending: vec![None; 4], missed: Default::default() })]
    }

    fn depth(&self, _seed: usize) -> usize {
        self.depth
    }

    fn actions(&self, s: &S, _depth: usize) -> Vec<Act> {
        let mut v = vec![];
        let members = s.w.members();
        for &m in &members {
            let e = s.w.g(m).current_epoch();
            v.push(Act::Commit(m));
            v.push(Act::CommitDetached(m));
            if m == members[0] && !s.w.outsiders().is_empty() && s.cands.iter().all(|c| c.welcome.is_none()) {
                v.push(Act::CommitAdd(m));
            }
            if s.pending[m].is_some() {
                v.push(Act::Clear(m));
                // applying is only offered when the delivery service has not picked another winner
                let ci = s.pending[m].unwrap();
                if s.winner.get(&e).map(|w| *w == ci).unwrap_or(true) {
                    v.push(Act::Apply(m));
                }
            } else if m == members[0] {
                v.push(Act::Apply(m));
            }
            for (ki, k) in s.kept.iter().enumerate() {
                if k.by != m {
                    continue;
                }
                let fresh = k.epoch == e && !k.applied;
                if !fresh || s.winner.get(&e).map(|w| *w == k.cand).unwrap_or(true) {
                    v.push(Act::ApplyDetached(m, ki));
                }
            }
            for (ci, c) in s.cands.iter().enumerate() {
                // the winner of an epoch (or any candidate while none is chosen) and stale ones
                let is_winner_or_open = s.winner.get(&c.epoch).map(|w| *w == ci).unwrap_or(true);
                if c.epoch == e && !is_winner_or_open {
                    continue;
                }
                if c.by == m && c.detached {
                    continue; // own detached commits are applied, not echoed
                }
                if c.epoch + 1 < e {
                    continue;
                }
                v.push(Act::Deliver(m, ci));
            }
        }
        if let Some(&m) = members.last() {
            if s.w.g(m).get_cached_proposals().is_empty() {
                v.push(Act::Propose(m));
            }
        }
        v
    }

    fn step(&self, s: &mut S, a: &Act, ctx: &mut Ctx) -> Step {
        let table = std::mem::take(&mut s.w.stores);
        stores::install(table);
        let r = std::panic::catch_unwind(std::panic::AssertUnwindSafe(|| self.act(s, a, ctx)));
        s.w.stores = stores::uninstall();
        match r {
            Ok(step) => {
                let mut shape = vec![];
                for m in s.w.members() {
                    shape.extend(s.w.g(m).current_epoch().to_be_bytes());
                    shape.push(s.w.g(m).has_pending_commit() as u8);
                    shape.push(s.w.g(m).get_cached_proposals().len() as u8);
                }
                shape.push(s.cands.len() as u8);
                shape.extend(s.kept.iter().map(|k| k.applied as u8 + 2 * (k.epoch as u8)));
                ctx.shape(crate::engine::fnv(&shape));
                step
            }
            Err(_) => {
                let (loc, msg, lib) = take_panic();
                if lib {
                    ctx.violation(format!("panic|{loc}"), format!("library panicked during {a:?}: {msg}"));
                    Step::Stop
                } else {
                    crate::engine::machinery(&format!("harness panic at {loc}: {msg}"))
                }
            }
        }
    }
}

fn models(tier: &str) -> Vec<M> {
    let quick = tier == "quick";
    let enc = WorldCfg { encrypt_handshake: true, tree_ext: false, padding: 1, ..Default::default() };
    if quick {
        vec![M { depth: 5, cfg: WorldCfg::default() }, M { depth: 4, cfg: enc }]
    } else {
        vec![M { depth: 7, cfg: WorldCfg::default() }, M { depth: 6, cfg: enc }]
    }
}

pub fn meta(tier: &str) -> Meta {
    let ms = models(tier);
    Meta {
        level: "model_checking",
        rule: "three real members in one epoch; every interleaving (up to the depth bound) of commit, commit with add, commit_detached, clear_pending_commit, apply_pending_commit, apply_detached_commit with any kept secrets (fresh, stale, already applied), delivery of any candidate commit (own echo, foreign winner, stale) and a by-reference proposal; the delivery service may pick any candidate as the winner of an epoch; judged against a reference machine {epoch, pending} per member, complete-state equality (hook H1) for everything that must not change, and the epoch ledger for everything that advances; a distinct state = (epochs, pending flags, cached proposals, candidates, kept secrets status)".into(),
        assumptions: default_assumptions(),
        bounds: bounds_json(&[("members", json!(3)), ("runs", json!(ms.iter().map(|m| json!({"config": m.cfg.label(), "depth": m.depth})).collect::<Vec<_>>()))]),
        required_goals: vec!["lost-race"],
        min_outcomes: 6,
        workers: 16,
    }
}

pub fn run(ctx: &mut Ctx) {
    for (i, m) in models(&ctx.tier.clone()).into_iter().enumerate() {
        ctx.model_idx = i;
        explore(&m, ctx);
    }
    // the race / echo deviations on the full history alphabet (all commit kinds, all seeds)
    for (i, m) in super::c01::deviation_models("C11", &ctx.tier.clone()).into_iter().enumerate() {
        ctx.model_idx = 100 + i;
        explore(&m, ctx);
    }
}

pub fn replay(ctx: &mut Ctx, path: &[usize]) {
    if path[0] >= 100 {
        let ms = super::c01::deviation_models("C11", &ctx.tier.clone());
        let Some(m) = ms.get(path[0] - 100) else { crate::engine::machinery("bad model index") };
        crate::engine::replay(m, ctx, &path[1..]);
        return;
    }
    let ms = models(&ctx.tier.clone());
    let Some(m) = ms.get(path[0]) else { crate::engine::machinery("bad model index") };
    crate::engine::replay(m, ctx, &path[1..]);
}
