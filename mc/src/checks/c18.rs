//! C18: a PSK commit binds the new epoch to knowledge of the PSK.
//!
//! Base world (current epoch 7, retention 2): A created the group and wrote at epoch 5
//! (resolves epochs 3..7: two stored, two un-flushed), B joined at epoch 1 and wrote at
//! epochs 3 and 6 (resolves 4..7), C joined at epoch 3 and never wrote (resolves 3..7).
//! Cases: every ordered list of 1..3 PSKs over {external e1, external e2,
//! resumption(r), r = 0..7} x by value / by reference x every assignment of
//! {same value, other value, absent} of e1 and e2 to B, C and the Welcome joiner D.
//! A receiver must reach the new epoch iff it holds the committer's value for every PSK in the
//! list (then it matches the committer), else reject and stay unchanged.

use mls_rs::group::verif_hooks::derive;
use mls_rs::group::ReceivedMessage;
use mls_rs::{CipherSuite, CipherSuiteProvider};
use mls_rs_codec::MlsEncode;
use serde_json::json;

use super::{bounds_json, default_assumptions, Meta};
use crate::engine::{take_panic, Ctx};
use crate::oracles::ledger_entry;
use crate::providers::{cs_provider, Which};
use crate::reference::keysched::Suite;
use crate::reference::tls::put_vbytes;
use crate::stateq::{diff, diff_classes, effective};
use crate::stores;
use crate::world::*;

const A: usize = 0;
const B: usize = 1;
const C: usize = 2;
const D: usize = 3;

#[derive(Clone, Copy, Debug, PartialEq, Eq)]
pub enum Id {
    E1,
    E2,
    Res(u64),
}

#[derive(Clone, Copy, Debug, PartialEq, Eq)]
pub enum Hold {
    Same,
    Other,
    Absent,
}

const HOLDS: [Hold; 3] = [Hold::Same, Hold::Other, Hold::Absent];

#[derive(Clone, Debug)]
pub struct Case {
    list: Vec<Id>,
    by_ref: bool,
    /// (e1, e2) per party B, C, D
    holds: [(Hold, Hold); 3],
}

fn base_world() -> World {
    let cfg = WorldCfg { retention: 2, ..Default::default() };
    let mut w = World::new(cfg, 4);
    let r = w.run(|w| {
        let round = |w: &mut World, by: usize, spec: CommitSpec| -> Result<(), mls_rs::error::MlsError> {
            let b = w.commit(by, &spec)?;
            for p in w.members() {
                if p != by {
                    w.process(p, &b.out.commit_message)?;
                }
            }
            w.apply(by)?;
            for (x, _) in &b.added {
                w.join(*x, &b.out.welcome_messages[0], None)?;
            }
            Ok(())
        };
        w.create(A)?;
        round(w, A, CommitSpec { props: vec![Prop::Add(B)], ..Default::default() })?; // epoch 1
        round(w, B, CommitSpec::default())?; // 2
        round(w, A, CommitSpec { props: vec![Prop::Add(C)], ..Default::default() })?; // 3
        w.gm(B).write_to_storage()?; // B's store now holds epochs 1,2 (retention 2)
        round(w, C, CommitSpec::default())?; // 4
        round(w, A, CommitSpec::default())?; // 5
        w.gm(A).write_to_storage()?; // A stores {3,4}: epochs 0..2 are no longer retained by A
        round(w, C, CommitSpec::default())?; // 6
        w.gm(B).write_to_storage()?; // B's store is trimmed to {4,5}: 1..3 are no longer retained
        round(w, A, CommitSpec::default())?; // 7 (A and B now also hold un-flushed records)
        Ok::<(), mls_rs::error::MlsError>(())
    });
    if !matches!(r, Ok(Ok(()))) {
        crate::engine::machinery("C18 base world could not be built");
    }
    w
}

/// Which past epochs a party can still resolve in the base world (current epoch 5).
fn has_epoch(p: usize, r: u64) -> bool {
    match p {
        // wrote at epoch 5 with retention 2 -> stored {3,4}; un-flushed {5,6}; current 7
        A => (3..=7).contains(&r),
        // joined at 1; last write at epoch 6 -> stored {4,5}; un-flushed {6}; current 7
        B => (4..=7).contains(&r),
        // joined at 3, never wrote: everything since is still in memory
        C => (3..=7).contains(&r),
        _ => false,
    }
}

fn run_case(base: &World, c: &Case, ctx: &mut Ctx) {
    let mut w = base.clone();
    let label = format!("{c:?}");
    ctx.cur_trail = vec![label.clone()];
    let vals: [&[u8]; 2] = [b"value of e1", b"value of e2"];
    for (pi, p) in [B, C, D].iter().enumerate() {
        for (k, h) in [c.holds[pi].0, c.holds[pi].1].iter().enumerate() {
            match h {
                Hold::Same => w.set_psk(*p, k as u8 + 1, vals[k].to_vec()),
                Hold::Other => w.set_psk(*p, k as u8 + 1, b"some other value".to_vec()),
                Hold::Absent => {}
            }
        }
    }
    for k in 0..2 {
        w.set_psk(A, k as u8 + 1, vals[k].to_vec());
    }
    let props: Vec<Prop> = c
        .list
        .iter()
        .map(|i| match i {
            Id::E1 => Prop::ExternalPsk(1),
            Id::E2 => Prop::ExternalPsk(2),
            Id::Res(r) => Prop::ResumptionPsk(*r),
        })
        .collect();
    let table = std::mem::take(&mut w.stores);
    stores::install(table);
    let r = std::panic::catch_unwind(std::panic::AssertUnwindSafe(|| {
        let committer_can = c.list.iter().all(|i| match i {
            Id::Res(r) => has_epoch(A, *r),
            _ => true,
        });
        // by reference: A proposes each PSK, B and C cache them
        let mut spec_props = vec![Prop::Add(D)];
        if c.by_ref {
            for pr in &props {
                match w.propose(A, pr) {
                    Ok((m, _)) => {
                        for p in [B, C] {
                            let _ = w.process(p, &m);
                        }
                    }
                    Err(e) => {
                        if committer_can {
                            ctx.violation(format!("psk-proposal-refused|{}", err_name(&e)), format!("{e:?} [{label}]"));
                        } else {
                            ctx.outcome("proposer-lacks-epoch(expected-err)");
                        }
                        return;
                    }
                }
            }
        } else {
            spec_props.extend(props.clone());
        }
        let pre: Vec<_> = [B, C].iter().map(|p| effective(w.g(*p), *p as u32)).collect();
        ctx.eval();
        let built = match w.commit(A, &CommitSpec { props: spec_props, ..Default::default() }) {
            Ok(b) => b,
            Err(e) => {
                if committer_can {
                    ctx.violation(format!("psk-commit-build-failed|{}", err_name(&e)), format!("the committer holds every PSK but cannot build the commit: {e:?} [{label}]"));
                } else {
                    ctx.outcome(format!("committer-lacks-epoch:{}", err_name(&e)));
                }
                return;
            }
        };
        if !committer_can {
            ctx.violation("psk-commit-built-without-psk", format!("the committer built a commit with a resumption PSK of an epoch it cannot resolve [{label}]"));
            return;
        }
        let _ = w.apply(A);
        let reference = ledger_entry(&w, A);
        for (pi, &p) in [B, C].iter().enumerate() {
            let holds_all = c.list.iter().all(|i| match i {
                Id::E1 => c.holds[pi].0 == Hold::Same,
                Id::E2 => c.holds[pi].1 == Hold::Same,
                Id::Res(r) => has_epoch(p, *r),
            });
            ctx.eval();
            let r = w.process(p, &built.out.commit_message);
            match (r, holds_all) {
                (Ok(ReceivedMessage::Commit(_)), true) => {
                    ctx.outcome("receiver:holds-all->new-epoch");
                    let e = ledger_entry(&w, p);
                    if e.authenticator != reference.authenticator || e.exports != reference.exports || e.context != reference.context {
                        ctx.violation("psk-epoch-differs-from-committer", format!("{} accepted the PSK commit but its epoch differs from the committer's [{label}]", w.parties[p].name));
                    }
                }
                (Ok(_), false) => {
                    ctx.violation(
                        "psk-commit-accepted-without-psk",
                        format!("{} reached the new epoch without holding the committer's value for every PSK of {:?} [{label}]", w.parties[p].name, c.list),
                    );
                }
                (Err(e), true) => {
                    ctx.violation(
                        format!("psk-commit-refused-by-holder|{}", err_name(&e)),
                        format!("{} holds every PSK of {:?} but refuses the commit: {e:?} [{label}]", w.parties[p].name, c.list),
                    );
                }
                (Err(e), false) => {
                    ctx.outcome(format!("receiver:lacks->{}", err_name(&e)));
                    let post = effective(w.g(p), p as u32);
                    let d = diff(&pre[pi], &post, &[]);
                    if !d.is_empty() {
                        ctx.violation(format!("refused-psk-commit-changed-state|{}|{}", err_name(&e), diff_classes(&d)), format!("{} refused the PSK commit but changed in {d:?} [{label}]", w.parties[p].name));
                    }
                }
                (Ok(_), true) => ctx.violation("commit-reported-as-other-kind", "commit reported as another kind"),
            }
        }
        // the Welcome joiner
        let joiner_holds = c.list.iter().all(|i| match i {
            Id::E1 => c.holds[2].0 == Hold::Same,
            Id::E2 => c.holds[2].1 == Hold::Same,
            Id::Res(_) => false,
        });
        if let Some(wm) = built.out.welcome_messages.first() {
            ctx.eval();
            match (w.join(D, wm, None), joiner_holds) {
                (Ok(()), true) => {
                    ctx.outcome("joiner:holds-all->joins");
                    let e = ledger_entry(&w, D);
                    if e.authenticator != reference.authenticator || e.context != reference.context {
                        ctx.violation("psk-joiner-epoch-differs", format!("the joiner's epoch differs from the committer's [{label}]"));
                    }
                }
                (Ok(()), false) => ctx.violation("welcome-usable-without-psk", format!("the joiner used the Welcome without holding every PSK of {:?} [{label}]", c.list)),
                (Err(e), true) => ctx.violation(format!("welcome-refused-by-holder|{}", err_name(&e)), format!("the joiner holds every PSK but cannot join: {e:?} [{label}]")),
                (Err(e), false) => ctx.outcome(format!("joiner:lacks->{}", err_name(&e))),
            }
        }
        ctx.report.transitions += 1;
        ctx.report.traces += 1;
    }));
    let _ = stores::uninstall();
    if r.is_err() {
        let (loc, msg, lib) = take_panic();
        if lib {
            ctx.violation(format!("panic|{loc}"), format!("library panicked: {msg} [{label}]"));
        } else {
            crate::engine::machinery(&format!("harness panic at {loc}: {msg}"));
        }
    }
}

fn lists() -> Vec<Vec<Id>> {
    let mut out = vec![vec![Id::E1], vec![Id::E2], vec![Id::E1, Id::E2], vec![Id::E2, Id::E1]];
    for r in 0..=7u64 {
        let res = Id::Res(r);
        out.push(vec![res]);
        for e in [Id::E1, Id::E2] {
            out.push(vec![e, res]);
            out.push(vec![res, e]);
        }
        for perm in [[0, 1, 2], [0, 2, 1], [1, 0, 2], [1, 2, 0], [2, 0, 1], [2, 1, 0]] {
            let items = [Id::E1, Id::E2, res];
            out.push(perm.iter().map(|i| items[*i]).collect());
        }
    }
    out
}

pub fn cases(tier: &str) -> Vec<Case> {
    let quick = tier == "quick";
    let mut pairs = vec![];
    for a in HOLDS {
        for b in HOLDS {
            pairs.push((a, b));
        }
    }
    let diag = vec![(Hold::Same, Hold::Same), (Hold::Other, Hold::Absent), (Hold::Absent, Hold::Other)];
    let mut out = vec![];
    for list in lists() {
        for by_ref in [false, true] {
            for &hb in &pairs {
                let others: &Vec<(Hold, Hold)> = if quick { &diag } else { &pairs };
                for &hc in others {
                    for &hd in others {
                        out.push(Case { list: list.clone(), by_ref, holds: [hb, hc, hd] });
                    }
                }
            }
        }
    }
    out
}

/// Changing value / id / nonce / order of one PSK changes every secret of the new epoch (H5).
fn sensitivity(ctx: &mut Ctx) {
    let cs = cs_provider(Which::Rust, CipherSuite::new(1)).unwrap();
    let nh = Suite(1).nh();
    let id = |name: &[u8], nonce: u8| {
        let mut o = vec![1u8];
        put_vbytes(&mut o, name);
        put_vbytes(&mut o, &vec![nonce; nh]);
        o
    };
    let base = vec![(id(b"e1", 1), b"v1".to_vec()), (id(b"e2", 2), b"v2".to_vec())];
    let variants: Vec<(&str, Vec<(Vec<u8>, Vec<u8>)>)> = vec![
        ("value", vec![(id(b"e1", 1), b"vX".to_vec()), base[1].clone()]),
        ("id", vec![(id(b"eX", 1), b"v1".to_vec()), base[1].clone()]),
        ("nonce", vec![(id(b"e1", 9), b"v1".to_vec()), base[1].clone()]),
        ("order", vec![base[1].clone(), base[0].clone()]),
        ("dropped", vec![base[0].clone()]),
    ];
    let gc = mls_rs::group::GroupContext {
        protocol_version: mls_rs::ProtocolVersion::MLS_10,
        cipher_suite: CipherSuite::new(1),
        group_id: b"g".to_vec(),
        epoch: 7,
        tree_hash: vec![1; nh],
        confirmed_transcript_hash: vec![2; nh].into(),
        extensions: Default::default(),
    };
    let _ = gc.mls_encode_to_vec();
    let secrets = |psks: &[(Vec<u8>, Vec<u8>)]| -> Vec<Vec<u8>> {
        let ps = derive::psk_secret(&cs, psks).expect("MACHINERY: psk_secret");
        let d = derive::from_init(&cs, &vec![3; nh], &vec![4; nh], &gc, 4, &ps).expect("MACHINERY: from_init");
        vec![d.welcome_key, d.welcome_nonce, d.sender_data_secret, d.resumption_secret, d.exporter_secret, d.authentication_secret, d.external_secret, d.membership_key, d.init_secret, d.confirmation_key]
    };
    let b = secrets(&base);
    for (what, v) in variants {
        let s = secrets(&v);
        for (i, (x, y)) in b.iter().zip(s.iter()).enumerate() {
            ctx.eval();
            if x == y {
                ctx.violation(format!("epoch-secret-insensitive-to-psk-{what}"), format!("changing the {what} of one PSK leaves derived secret #{i} of the new epoch unchanged"));
            }
        }
        ctx.outcome(format!("sensitivity:{what}"));
    }
    let _ = cs.cipher_suite();
}

pub fn meta(tier: &str) -> Meta {
    Meta {
        level: "model_checking",
        rule: "every ordered PSK list of 1..3 entries over {e1, e2, resumption(r), r=0..5} (70 lists) x by value / by reference x every assignment {same, other, absent} of e1 and e2 to receiver B (all 9), receiver C and Welcome joiner D (all 9 each in thorough, 3 each in quick), on forks of one base world with staggered join epochs and a retention window; expected outcome per party computed by the reference predicate 'holds the committer's value for every listed PSK / still resolves the referenced epoch'; refusing parties are compared with their pre-state (hook H1); accepting ones with the committer; plus sensitivity of all derived epoch secrets to value/id/nonce/order of one PSK; plus, for every committer and every epoch number 0..7, a by-value resumption PSK that names another group id (hand-encoded, CommitBuilder::raw_proposal): the commit must not be buildable whether the committer holds that epoch number of its own group stored, un-flushed, as the current epoch or not at all, and if built nobody may follow it; plus an external commit that injects external PSK e1 for every assignment {same, other, absent} to the joiner and the three members (81): the joiner builds iff it holds a value, a member follows iff it holds the joiner's value and then agrees with the joiner, else refuses unchanged; states = cases".into(),
        assumptions: default_assumptions(),
        bounds: bounds_json(&[("cases", json!(cases(tier).len())), ("psk_lists", json!(lists().len()))]),
        required_goals: vec!["foreign-group-resumption-psk", "external-commit-with-psk"],
        min_outcomes: 6,
        workers: 16,
    }
}

pub fn run(ctx: &mut Ctx) {
    let base = base_world();
    let cs = cases(&ctx.tier.clone());
    for (i, c) in cs.iter().enumerate() {
        if !ctx.mine(i) {
            continue;
        }
        if ctx.over_cap() {
            break;
        }
        ctx.path = vec![i];
        run_case(&base, c, ctx);
        ctx.extra("states", 1);
        if i % 2003 == 0 {
            ctx.sample(json!(format!("{c:?}")));
        }
    }
    if ctx.shard.0 == 0 {
        sensitivity(ctx);
    }
    if ctx.shard.0 == 1 % ctx.shard.1 {
        foreign_group_resumption(&base, ctx);
    }
    if ctx.shard.0 == 2 % ctx.shard.1 {
        external_commit_with_psk(&base, ctx);
    }
}

/// An external commit that injects an external PSK: the outsider D joins with
/// `ExternalCommitBuilder::with_external_psk(e1)`. D can build iff it holds a value for e1; a
/// member follows iff it holds D's value, else refuses and is unchanged; followers agree with D.
fn external_commit_with_psk(base: &World, ctx: &mut Ctx) {
    let vals: [&[u8]; 2] = [b"value of e1", b"some other value"];
    for d_hold in HOLDS {
        for a_hold in HOLDS {
            for b_hold in HOLDS {
                for c_hold in HOLDS {
                    let mut w = base.clone();
                    let label = format!("external commit by D with external PSK e1; holds: D={d_hold:?} A={a_hold:?} B={b_hold:?} C={c_hold:?}");
                    ctx.cur_trail = vec![label.clone()];
                    for (p, h) in [(D, d_hold), (A, a_hold), (B, b_hold), (C, c_hold)] {
                        match h {
                            Hold::Same => w.set_psk(p, 1, vals[0].to_vec()),
                            Hold::Other => w.set_psk(p, 1, vals[1].to_vec()),
                            Hold::Absent => {}
                        }
                    }
                    // "same" is relative to D: a member follows iff its value equals D's
                    let follows = |h: Hold| d_hold != Hold::Absent && h == d_hold;
                    let table = std::mem::take(&mut w.stores);
                    stores::install(table);
                    let res = std::panic::catch_unwind(std::panic::AssertUnwindSafe(|| {
                        let gi = match w.g(A).group_info_message_allowing_ext_commit(true) {
                            Ok(g) => g,
                            Err(_) => crate::engine::machinery("C18: group info"),
                        };
                        let mut b = match w.parties[D].client.external_commit_builder() {
                            Ok(b) => b.with_external_psk(World::psk_id(1)),
                            Err(_) => crate::engine::machinery("C18: external commit builder"),
                        };
                        if let Some(t) = w.now() {
                            b = b.commit_time(t);
                        }
                        ctx.eval();
                        let (dg, msg) = match (b.build(gi), d_hold != Hold::Absent) {
                            (Ok(x), true) => x,
                            (Ok(_), false) => {
                                ctx.violation("external-psk-commit-built-without-psk", format!("the external joiner built a commit over a PSK it does not hold [{label}]"));
                                return;
                            }
                            (Err(e), true) => {
                                ctx.violation(format!("external-psk-commit-build-failed|{}", err_name(&e)), format!("{e:?} [{label}]"));
                                return;
                            }
                            (Err(e), false) => {
                                ctx.outcome(format!("external-psk-commit:joiner-lacks:{}", err_name(&e)));
                                return;
                            }
                        };
                        ctx.goal("external-commit-with-psk");
                        for (p, h) in [(A, a_hold), (B, b_hold), (C, c_hold)] {
                            let pre = effective(w.g(p), p as u32);
                            ctx.eval();
                            match (w.process(p, &msg), follows(h)) {
                                (Ok(_), true) => {
                                    ctx.outcome("external-psk-commit:member-follows");
                                    let same = w.g(p).epoch_authenticator().ok().map(|s| s.as_bytes().to_vec()) == dg.epoch_authenticator().ok().map(|s| s.as_bytes().to_vec()) && w.g(p).context() == dg.context();
                                    if !same {
                                        ctx.violation("external-psk-commit-epoch-differs", format!("{} followed the external commit but its epoch differs from the joiner's [{label}]", w.parties[p].name));
                                    }
                                }
                                (Ok(_), false) => ctx.violation("psk-commit-accepted-without-psk|external-commit", format!("{} followed an external commit whose PSK value it does not hold [{label}]", w.parties[p].name)),
                                (Err(e), true) => ctx.violation(format!("psk-commit-refused-by-holder|external-commit|{}", err_name(&e)), format!("{} holds the joiner's PSK value but refuses: {e:?} [{label}]", w.parties[p].name)),
                                (Err(e), false) => {
                                    ctx.outcome(format!("external-psk-commit:member-lacks:{}", err_name(&e)));
                                    let post = effective(w.g(p), p as u32);
                                    let d = diff(&pre, &post, &[]);
                                    if !d.is_empty() {
                                        ctx.violation(format!("refused-psk-commit-changed-state|{}|{}", err_name(&e), diff_classes(&d)), format!("{d:?} [{label}]"));
                                    }
                                }
                            }
                        }
                    }));
                    let _ = stores::uninstall();
                    ctx.report.transitions += 1;
                    ctx.extra("states", 1);
                    if res.is_err() {
                        let (loc, msg, lib) = take_panic();
                        if lib {
                            ctx.violation(format!("panic|{loc}"), format!("library panicked: {msg} [{label}]"));
                        } else {
                            crate::engine::machinery(&format!("harness panic at {loc}: {msg}"));
                        }
                    }
                }
            }
        }
    }
}

/// A resumption PSK (usage application) that names ANOTHER group id and an epoch number the
/// member happens to hold for its own group -- stored, un-flushed or current. Nobody holds a
/// secret of that other group, so the committer must not be able to build the commit, and if
/// one is built nobody may follow it. (The PSK proposal is hand-encoded and handed to
/// `CommitBuilder::raw_proposal`; the public builders only name the own group.)
fn foreign_group_resumption(base: &World, ctx: &mut Ctx) {
    use mls_rs::group::proposal::Proposal;
    use mls_rs_codec::MlsDecode;
    let nh = Suite(1).nh();
    for committer in [A, B, C] {
        for r in 0..=7u64 {
            let mut w = base.clone();
            let label = format!("resumption PSK of group 'some-other-group' epoch {r}, by value, committer {}", w.parties[committer].name);
            ctx.cur_trail = vec![label.clone()];
            // Proposal: type psk(4); PreSharedKeyID: psktype resumption(2), usage application(1),
            // psk_group_id, psk_epoch, psk_nonce
            let mut bytes = vec![0u8, 4, 2, 1];
            put_vbytes(&mut bytes, b"some-other-group");
            bytes.extend_from_slice(&r.to_be_bytes());
            put_vbytes(&mut bytes, &vec![0x5a; nh]);
            let Ok(prop) = Proposal::mls_decode(&mut &*bytes) else { crate::engine::machinery("C18: hand-encoded PSK proposal does not decode") };
            let where_held = if r == 7 {
                "current-epoch"
            } else if !has_epoch(committer, r) {
                "epoch-not-held"
            } else {
                match (committer, r) {
                    (A, 5 | 6) | (B, 6) | (C, _) => "epoch-unflushed",
                    _ => "epoch-stored",
                }
            };
            let table = std::mem::take(&mut w.stores);
            stores::install(table);
            let res = std::panic::catch_unwind(std::panic::AssertUnwindSafe(|| {
                let pre: Vec<_> = [A, B, C].iter().map(|p| effective(w.g(*p), *p as u32)).collect();
                ctx.eval();
                let now = w.now();
                let mut b = w.gm(committer).commit_builder().raw_proposal(prop.clone());
                if let Some(t) = now {
                    b = b.commit_time(t);
                }
                match b.build() {
                    Err(e) => {
                        ctx.outcome(format!("foreign-group-psk:{where_held}:build-refused:{}", err_name(&e)));
                        ctx.goal("foreign-group-resumption-psk");
                    }
                    Ok(out) => {
                        ctx.goal("foreign-group-resumption-psk");
                        ctx.violation(
                            format!("psk-commit-built-without-psk|resumption-psk-of-another-group|{where_held}"),
                            format!("the committer built a commit over a resumption PSK of a group it is not in (it resolved (other group, epoch {r}) to a secret of its own group) [{label}]"),
                        );
                        let mut verdicts = vec![];
                        for (pi, &p) in [A, B, C].iter().enumerate() {
                            if p == committer {
                                continue;
                            }
                            ctx.eval();
                            match w.process(p, &out.commit_message) {
                                Ok(_) => {
                                    verdicts.push((p, true));
                                    ctx.violation(
                                        "psk-commit-accepted-without-psk|resumption-psk-of-another-group",
                                        format!("{} followed a commit whose resumption PSK names a group it is not in [{label}]", w.parties[p].name),
                                    );
                                }
                                Err(e) => {
                                    verdicts.push((p, false));
                                    ctx.outcome(format!("foreign-group-psk:receiver-refuses:{}", err_name(&e)));
                                    let post = effective(w.g(p), p as u32);
                                    let d = diff(&pre[pi], &post, &[]);
                                    if !d.is_empty() {
                                        ctx.violation(format!("refused-psk-commit-changed-state|{}|{}", err_name(&e), diff_classes(&d)), format!("{d:?} [{label}]"));
                                    }
                                }
                            }
                        }
                        if verdicts.iter().any(|v| v.1) && verdicts.iter().any(|v| !v.1) {
                            ctx.violation("psk-commit-splits-the-group|resumption-psk-of-another-group", format!("honest members disagree on the commit depending on when they last wrote: {verdicts:?} [{label}]"));
                        }
                    }
                }
            }));
            let _ = stores::uninstall();
            ctx.report.transitions += 1;
            if res.is_err() {
                let (loc, msg, lib) = take_panic();
                if lib {
                    ctx.violation(format!("panic|{loc}"), format!("library panicked: {msg} [{label}]"));
                } else {
                    crate::engine::machinery(&format!("harness panic at {loc}: {msg}"));
                }
            }
        }
    }
}

pub fn replay(ctx: &mut Ctx, path: &[usize]) {
    let base = base_world();
    let cs = cases(&ctx.tier.clone());
    let idx = *path.last().unwrap_or(&0);
    let Some(c) = cs.get(idx) else { crate::engine::machinery("no such case") };
    println!("case {idx}: {c:?}");
    run_case(&base, c, ctx);
}
