//! C19: late messages -- exact retention window, never a wrong sender.
//!
//! A chain of n <= R+3 commits; sender S (party 0) encrypts an application message at epoch
//! e0 which reaches receiver B (party 1) only at the end of the chain; B calls write_to_storage
//! at every subset of positions; between sending and delivery S's leaf is left alone / HPKE
//! re-keyed / signature re-keyed / removed / removed and reused by another identity / removed
//! and re-added. B persists through the tee (shipped in-memory + SQLite + reference model).

use mls_rs::group::ReceivedMessage;
use mls_rs::GroupStateStorage;
use serde_json::json;

use super::{bounds_json, default_assumptions, Meta};
use crate::engine::{take_panic, Ctx};
use crate::stores;
use crate::world::*;

const S: usize = 0;
const B: usize = 1;
const C: usize = 2;
const D: usize = 3;

#[derive(Clone, Copy, Debug, PartialEq, Eq)]
pub enum Leaf {
    Untouched,
    HpkeRekey,
    SigRekey,
    Removed,
    RemovedReused,
    RemovedReadded,
    /// removed, the leaf taken by another identity, and the sender back on another leaf
    RemovedReusedReadded,
}

const LEAVES: [Leaf; 7] = [Leaf::Untouched, Leaf::HpkeRekey, Leaf::SigRekey, Leaf::Removed, Leaf::RemovedReused, Leaf::RemovedReadded, Leaf::RemovedReusedReadded];

#[derive(Clone, Debug)]
pub struct Case {
    pub retention: usize,
    pub commits: usize,
    /// the message is sent after this many commits of the chain
    pub sent_after: usize,
    /// bit i: B writes after commit i (bit `commits` = before the first commit)
    pub writes: u32,
    pub leaf: Leaf,
    pub primary: u8,
    /// the sender is the rightmost member (leaf 2 of 3) instead of the creator at leaf 0
    pub rightmost: bool,
}

fn run_case(c: &Case, ctx: &mut Ctx) {
    // the sender is the creator at leaf 0, or the rightmost member (its removal trims the tree)
    let (sp, cp) = if c.rightmost { (2usize, 0usize) } else { (0usize, 2usize) };
    let cfg = WorldCfg { retention: c.retention, ..Default::default() };
    let mut w = World::new(cfg, 4);
    stores::tee_clear();
    stores::tee_install(B as u32, c.retention, c.primary);
    let label = format!("{c:?}");
    ctx.cur_trail = vec![label.clone()];
    let table = std::mem::take(&mut w.stores);
    stores::install(table);
    let r = std::panic::catch_unwind(std::panic::AssertUnwindSafe(|| {
        let setup = (|| {
            let creator = sp.min(cp);
            let third = sp.max(cp);
            w.create(creator)?;
            let b = w.commit(creator, &CommitSpec { props: vec![Prop::Add(B), Prop::Add(third)], ..Default::default() })?;
            w.apply(creator)?;
            for p in [B, third] {
                w.join(p, &b.out.welcome_messages[0], None)?;
            }
            Ok::<(), mls_rs::error::MlsError>(())
        })();
        if setup.is_err() {
            crate::engine::machinery("C19 setup failed");
        }
        let join_epoch = w.g(B).current_epoch();
        let s_leaf = w.leaf_of(sp);
        let s_sig = w.parties[sp].identity.signature_key.to_vec();
        let mut last_write_epoch: Option<u64> = None;
        let mut msg = None;
        let mut e0 = 0;
        // steps the leaf variant still has to perform after the message was sent
        let mut todo: Vec<&'static str> = vec![];
        let mut leaf_changed = false;
        let mut sig_key_at_leaf_same = true;
        let mut write = |w: &mut World, ctx: &mut Ctx, last_write_epoch: &mut Option<u64>| {
            if let Err(e) = w.gm(B).write_to_storage() {
                ctx.violation(format!("write-failed|{}", err_name(&e)), format!("{e:?} [{label}]"));
                return;
            }
            let cw = w.g(B).current_epoch();
            *last_write_epoch = Some(cw);
            // exact window right after the write, as answered by the store mls-rs sees
            let gid = w.group_id.clone();
            let st = stores::GsStore(B as u32);
            let lo = join_epoch.max(cw.saturating_sub(c.retention as u64));
            for e in 0..cw {
                ctx.eval();
                let present = st.epoch(&gid, e).map(|o| o.is_some()).unwrap_or(false);
                let want = e >= lo;
                if present != want {
                    ctx.violation(
                        format!("stored-window-wrong|{}", if present { "stale-epoch-still-stored" } else { "retained-epoch-missing" }),
                        format!("after a write at epoch {cw} with retention {} epoch {e} stored={present}, expected {want} [{label}]", c.retention),
                    );
                }
            }
            let _ = st.max_epoch_id(&gid);
            for l in stores::tee_take_log() {
                let kind = l.split(':').next().unwrap_or("").split('(').next().unwrap_or("").to_string();
                ctx.violation(format!("stores-disagree|{kind}"), format!("{l} [{label}]"));
            }
        };
        if c.writes & (1 << c.commits) != 0 {
            write(&mut w, ctx, &mut last_write_epoch);
        }
        for i in 0..=c.commits {
            if i == c.sent_after {
                e0 = w.g(sp).current_epoch();
                match w.send(sp, b"late message", b"late-aad") {
                    Ok(m) => msg = Some(m),
                    Err(_) => return,
                }
                todo = match c.leaf {
                    Leaf::Untouched => vec![],
                    Leaf::HpkeRekey => vec!["s-commits"],
                    Leaf::SigRekey => vec!["s-rekeys"],
                    Leaf::Removed => vec!["remove-s"],
                    Leaf::RemovedReused => vec!["remove-s", "add-d"],
                    Leaf::RemovedReadded => vec!["remove-s", "add-s"],
                    Leaf::RemovedReusedReadded => vec!["remove-s", "add-d", "add-s"],
                };
            }
            if i == c.commits {
                break;
            }
            // commit i of the chain
            let action = if msg.is_some() && !todo.is_empty() { todo.remove(0) } else { "c-commits" };
            let (by, spec) = match action {
                "s-commits" => (sp, CommitSpec::default()),
                "s-rekeys" => (sp, CommitSpec { rekey: true, ..Default::default() }),
                "remove-s" => (cp, CommitSpec { props: vec![Prop::Remove(sp)], ..Default::default() }),
                "add-d" => (cp, CommitSpec { props: vec![Prop::Add(D)], ..Default::default() }),
                "add-s" => (cp, CommitSpec { props: vec![Prop::Add(sp)], ..Default::default() }),
                _ => (cp, CommitSpec::default()),
            };
            if !w.is_member(by) {
                return;
            }
            let Ok(built) = w.commit(by, &spec) else { return };
            for p in w.members() {
                if p != by && w.process(p, &built.out.commit_message).is_err() {
                    ctx.note("C19: a chain commit was rejected");
                    return;
                }
            }
            if w.apply(by).is_err() {
                return;
            }
            match action {
                "remove-s" => {
                    w.retire(sp, true);
                    leaf_changed = true;
                    sig_key_at_leaf_same = false;
                }
                "add-d" | "add-s" => {
                    let x = if action == "add-d" { D } else { sp };
                    if let Some(wm) = built.out.welcome_messages.first() {
                        let _ = w.join(x, wm, None);
                    }
                    if w.is_member(x) && w.leaf_of(x) == s_leaf {
                        sig_key_at_leaf_same = action == "add-s";
                    }
                }
                "s-rekeys" => {
                    leaf_changed = true;
                    sig_key_at_leaf_same = false;
                }
                "s-commits" => leaf_changed = true,
                _ => {}
            }
            ctx.report.transitions += 1;
            if c.writes & (1 << i) != 0 {
                write(&mut w, ctx, &mut last_write_epoch);
            }
        }
        if !todo.is_empty() {
            ctx.outcome("variant-not-completed(skipped)");
            return;
        }
        let Some(msg) = msg else { return };
        // ---- delivery
        let cur = w.g(B).current_epoch();
        let lo = match last_write_epoch {
            None => join_epoch,
            Some(cw) => join_epoch.max(cw.saturating_sub(c.retention as u64)),
        };
        let retained = e0 == cur || e0 >= lo;
        let age = cur - e0;
        ctx.eval();
        let r = w.process(B, &msg);
        let class = format!("{:?}", c.leaf);
        match r {
            Ok(ReceivedMessage::ApplicationMessage(d)) => {
                ctx.outcome(format!("late:{class}:accepted"));
                if d.sender_index != s_leaf || d.data() != b"late message" || d.authenticated_data != b"late-aad" {
                    ctx.violation("late-message-misattributed", format!("late message reported with sender {} (sent by leaf {s_leaf}) or altered content [{label}]", d.sender_index));
                }
                if !retained {
                    ctx.violation("late-message-outside-window-accepted", format!("message of epoch {e0} accepted at epoch {cur} although only epochs >= {lo} are retained (last write {last_write_epoch:?}, R={}) [{label}]", c.retention));
                }
                if age > 0 && !sig_key_at_leaf_same {
                    if c.leaf == Leaf::SigRekey {
                        ctx.outcome("late:sig-rekey:accepted(attribution-still-right)");
                    } else {
                        ctx.violation(format!("late-message-from-vacated-or-reused-leaf-accepted|{class}"), format!("message of epoch {e0} accepted although leaf {s_leaf} no longer carries the sender's signature key [{label}]"));
                    }
                }
                // the roster of today must still attribute that index to the sender's key, if occupied
                if let Some(m) = w.g(B).member_at_index(s_leaf) {
                    if m.signing_identity.signature_key.to_vec() != s_sig && c.leaf != Leaf::SigRekey {
                        ctx.violation("late-message-attributed-to-other-key", format!("leaf {s_leaf} now belongs to another key but the late message was accepted as coming from it [{label}]"));
                    }
                }
            }
            Ok(_) => ctx.violation("late-message-wrong-kind", "application message reported as another kind"),
            Err(e) => {
                let n = err_name(&e);
                ctx.outcome(format!("late:{class}:refused:{n}"));
                let must_accept = retained && (age == 0 || !leaf_changed || c.leaf == Leaf::HpkeRekey);
                if must_accept {
                    ctx.violation(
                        format!("late-message-inside-window-refused|{class}|{n}"),
                        format!("message of epoch {e0} refused at epoch {cur} with {e:?} although the epoch is retained (epochs >= {lo}; last write {last_write_epoch:?}, R={}) and the sender's leaf still carries its signature key [{label}]", c.retention),
                    );
                }
            }
        }
        if age > c.retention as u64 {
            ctx.goal("message-older-than-retention");
        }
        if age > 0 && retained {
            ctx.goal("late-message-inside-window");
        }
        for l in stores::tee_take_log() {
            let kind = l.split(':').next().unwrap_or("").split('(').next().unwrap_or("").to_string();
            ctx.violation(format!("stores-disagree|{kind}"), format!("{l} [{label}]"));
        }
        ctx.report.traces += 1;
    }));
    let _ = stores::uninstall();
    stores::tee_clear();
    if r.is_err() {
        let (loc, msg, lib) = take_panic();
        if lib {
            ctx.violation(format!("panic|{loc}"), format!("library panicked: {msg} [{label}]"));
        } else {
            crate::engine::machinery(&format!("harness panic at {loc}: {msg}"));
        }
    }
}

pub fn cases(tier: &str) -> Vec<Case> {
    let quick = tier == "quick";
    let mut out = vec![];
    for retention in if quick { vec![1usize, 2, 3] } else { vec![1usize, 2, 3, 4] } {
        let max_commits = if quick { retention + 2 } else { retention + 4 };
        for commits in 1..=max_commits {
            for sent_after in 0..=commits {
                for writes in 0u32..(1 << (commits + 1)) {
                    for leaf in LEAVES {
                        // the variant needs enough commits after the message
                        let need = match leaf {
                            Leaf::Untouched => 0,
                            Leaf::HpkeRekey | Leaf::SigRekey | Leaf::Removed => 1,
                            Leaf::RemovedReusedReadded => 3,
                            _ => 2,
                        };
                        if commits - sent_after < need {
                            continue;
                        }
                        for primary in [0u8, 1] {
                            if quick && primary == 1 && (writes.count_ones() % 2 == 0) && leaf != Leaf::Untouched {
                                continue;
                            }
                            for rightmost in [false, true] {
                                // the rightmost sender matters where its leaf is vacated
                                if rightmost && matches!(leaf, Leaf::Untouched | Leaf::HpkeRekey | Leaf::SigRekey) && quick {
                                    continue;
                                }
                                out.push(Case { retention, commits, sent_after, writes, leaf, primary, rightmost });
                            }
                        }
                    }
                }
            }
        }
    }
    out
}

pub fn meta(tier: &str) -> Meta {
    Meta {
        level: "model_checking",
        rule: "every case (retention R in 1..3) x (chain of 1..R+3 commits) x (epoch at which the message is sent) x (every subset of positions at which the receiver writes, incl. before the first commit) x (7 fates of the sender's leaf) x (sender = creator at leaf 0 / rightmost member, whose removal trims the tree) x (which shipped store answers) is executed from scratch on real members with the tee store; the delivery outcome is judged against the retention model `retained = [max(join, last_write_epoch - R), current]`, the attribution rule (leaf still carries the sender's signature key), and after every write the stored window is read back epoch by epoch from the in-memory store, the SQLite store and the model; states = cases, transitions = commits executed".into(),
        assumptions: {
            let mut a = default_assumptions();
            a.push("a signature re-key of the same member between sending and delivery may be accepted or refused; both count as correct attribution".into());
            a
        },
        bounds: bounds_json(&[("cases", json!(cases(tier).len())), ("retention", json!(if tier == "quick" { "1,2,3" } else { "1,2,3,4" })), ("max_commits", json!(if tier == "quick" { "R+2" } else { "R+4" }))]),
        required_goals: vec!["message-older-than-retention", "late-message-inside-window"],
        min_outcomes: 6,
        workers: 16,
    }
}

pub fn run(ctx: &mut Ctx) {
    let cs = cases(&ctx.tier.clone());
    for (i, c) in cs.iter().enumerate() {
        if !ctx.mine(i) {
            continue;
        }
        if ctx.over_cap() {
            break;
        }
        ctx.path = vec![i];
        run_case(c, ctx);
        ctx.extra("states", 1);
        if i % 1009 == 0 {
            ctx.sample(json!(format!("{c:?}")));
        }
    }
}

pub fn replay(ctx: &mut Ctx, path: &[usize]) {
    let cs = cases(&ctx.tier.clone());
    let idx = *path.last().unwrap_or(&0);
    let Some(c) = cs.get(idx) else { crate::engine::machinery("no such case") };
    println!("case {idx}: {c:?}");
    run_case(c, ctx);
}
