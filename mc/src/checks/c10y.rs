//! C10, third clause: an invalid proposal set is rejected when it is received from someone else.
//!
//! An honest library never sends such a commit, so the committer here is adversarial: hook H8
//! (`verif_hooks::lenient`) makes its proposal filter keep what it finds invalid, and the library
//! then computes tree, transcript, confirmation tag, signature and membership tag consistently
//! over the invalid set. Proposals the public builders refuse to express are hand-encoded and
//! passed through `CommitBuilder::raw_proposal`. Every receiver (switch off) must refuse the
//! commit, stay exactly as it was (public handshake: complete state) and never panic. Control:
//! the same procedure over valid proposals yields commits that every receiver accepts.

use mls_rs::group::proposal::Proposal;
use mls_rs::group::verif_hooks::lenient;
use mls_rs::group::ReceivedMessage;
use mls_rs::MlsMessage;
use mls_rs_codec::{MlsDecode, MlsEncode};
use serde_json::json;

use crate::engine::{take_panic, Ctx};
use crate::reference::framing::layout;
use crate::reference::tls::put_vbytes;
use crate::stateq::{diff, diff_classes, effective};
use crate::stores;
use crate::world::*;

#[derive(Clone, Copy, Debug, PartialEq, Eq)]
pub enum Bad {
    // controls (valid)
    CtlRemove,
    CtlAdd,
    CtlPskAndGce,
    // invalid sets
    RemoveCommitterByValue,
    RemoveCommitterByRef,
    UpdateOfCommitterByRef,
    UpdateByValue,
    TwoRemovesOfOneLeaf,
    RemoveAndUpdateOfOneLeaf,
    DuplicatePsk,
    PskNonceTooShort,
    PskResumptionWithReinitUsage,
    PskResumptionWithBranchUsage,
    TwoGce,
    GceRequiresUnsupportedExtension,
    ReInitWithAdd,
    ReInitWithOtherVersion,
    AddExistingMember,
    AddExpired,
    AddSameIdentityTwice,
    AddOfOtherSuite,
    RemoveBlankLeaf,
    RemoveBeyondTree,
    CustomOfUnsupportedType,
    ExternalSenderUpdate,
}

pub const ALL: [Bad; 25] = [
    Bad::CtlRemove,
    Bad::CtlAdd,
    Bad::CtlPskAndGce,
    Bad::RemoveCommitterByValue,
    Bad::RemoveCommitterByRef,
    Bad::UpdateOfCommitterByRef,
    Bad::UpdateByValue,
    Bad::TwoRemovesOfOneLeaf,
    Bad::RemoveAndUpdateOfOneLeaf,
    Bad::DuplicatePsk,
    Bad::PskNonceTooShort,
    Bad::PskResumptionWithReinitUsage,
    Bad::PskResumptionWithBranchUsage,
    Bad::TwoGce,
    Bad::GceRequiresUnsupportedExtension,
    Bad::ReInitWithAdd,
    Bad::ReInitWithOtherVersion,
    Bad::AddExistingMember,
    Bad::AddExpired,
    Bad::AddSameIdentityTwice,
    Bad::AddOfOtherSuite,
    Bad::RemoveBlankLeaf,
    Bad::RemoveBeyondTree,
    Bad::CustomOfUnsupportedType,
    Bad::ExternalSenderUpdate,
];

impl Bad {
    fn is_control(&self) -> bool {
        matches!(self, Bad::CtlRemove | Bad::CtlAdd | Bad::CtlPskAndGce)
    }
}

const A: usize = 1;
const B: usize = 2;
const X: usize = 3;

fn base_world(blank: bool) -> World {
    let cfg = WorldCfg { external_senders: true, ..Default::default() };
    let mut w = World::new(cfg, 9);
    for p in 0..9 {
        w.set_psk(p, 0, b"psk-zero-value".to_vec());
    }
    let r = w.run(|w| {
        let round = |w: &mut World, by: usize, spec: CommitSpec| -> Result<(), mls_rs::error::MlsError> {
            let b = w.commit(by, &spec)?;
            for p in w.members() {
                if p != by {
                    w.process(p, &b.out.commit_message)?;
                }
            }
            w.apply(by)?;
            for pr in &spec.props {
                if let Prop::Remove(x) = pr {
                    w.retire(*x, true);
                }
            }
            for (x, _) in &b.added {
                w.join(*x, &b.out.welcome_messages[0], None)?;
            }
            Ok(())
        };
        w.create(0)?;
        round(w, 0, CommitSpec { props: vec![Prop::Add(1), Prop::Add(2), Prop::Add(3), Prop::Add(4), Prop::Add(5)], ..Default::default() })?;
        round(w, 2, CommitSpec::default())?;
        round(w, 4, CommitSpec::default())?;
        if blank {
            // leaf 5 becomes an interior-free blank (rightmost) -- and leaf of party 5 is vacated
            round(w, 1, CommitSpec { props: vec![Prop::Remove(5)], ..Default::default() })?;
        }
        Ok::<(), mls_rs::error::MlsError>(())
    });
    if !matches!(r, Ok(Ok(()))) {
        crate::engine::machinery("C10y base world could not be built");
    }
    w
}

fn dec(bytes: &[u8]) -> Proposal {
    match Proposal::mls_decode(&mut &*bytes) {
        Ok(p) => p,
        Err(e) => crate::engine::machinery(&format!("C10y: hand-encoded proposal does not decode: {e:?}")),
    }
}

fn remove(leaf: u32) -> Proposal {
    let mut b = vec![0u8, 3];
    b.extend_from_slice(&leaf.to_be_bytes());
    dec(&b)
}

fn add(kp: &MlsMessage) -> Proposal {
    let m = kp.mls_encode_to_vec().expect("MACHINERY: kp encode");
    let mut b = vec![0u8, 1];
    b.extend_from_slice(&m[4..]);
    dec(&b)
}

fn psk_external(id: &[u8], nonce_len: usize) -> Proposal {
    let mut b = vec![0u8, 4, 1];
    put_vbytes(&mut b, id);
    put_vbytes(&mut b, &vec![0x33; nonce_len]);
    dec(&b)
}

fn psk_resumption(usage: u8, gid: &[u8], epoch: u64, nonce_len: usize) -> Proposal {
    let mut b = vec![0u8, 4, 2, usage];
    put_vbytes(&mut b, gid);
    b.extend_from_slice(&epoch.to_be_bytes());
    put_vbytes(&mut b, &vec![0x44; nonce_len]);
    dec(&b)
}

fn gce(ext: &mls_rs::ExtensionList) -> Proposal {
    let mut b = vec![0u8, 7];
    b.extend_from_slice(&ext.mls_encode_to_vec().expect("MACHINERY: ext encode"));
    dec(&b)
}

fn gce_raw(exts: &[(u16, Vec<u8>)]) -> Proposal {
    let mut list = vec![];
    for (t, d) in exts {
        list.extend_from_slice(&t.to_be_bytes());
        put_vbytes(&mut list, d);
    }
    let mut b = vec![0u8, 7];
    put_vbytes(&mut b, &list);
    dec(&b)
}

fn reinit(gid: &[u8], version: u16, suite: u16) -> Proposal {
    let mut b = vec![0u8, 5];
    put_vbytes(&mut b, gid);
    b.extend_from_slice(&version.to_be_bytes());
    b.extend_from_slice(&suite.to_be_bytes());
    put_vbytes(&mut b, &[]);
    dec(&b)
}

fn custom(t: u16, data: &[u8]) -> Proposal {
    let mut b = t.to_be_bytes().to_vec();
    put_vbytes(&mut b, data);
    dec(&b)
}

/// The proposal body of a public proposal message.
fn body_of(m: &MlsMessage) -> Option<Proposal> {
    let b = m.mls_encode_to_vec().ok()?;
    let lay = layout(&b).ok()?;
    let r = lay.region("proposal").or_else(|| lay.region("content"))?;
    Proposal::mls_decode(&mut &b[r.start..r.end]).ok()
}

fn run_case(base: &[World], bad: Bad, committer: usize, ctx: &mut Ctx) {
    let label = format!("{bad:?} committer P{committer}");
    ctx.cur_trail = vec![label.clone()];
    let mut w = base[if bad == Bad::RemoveBlankLeaf { 1 } else { 0 }].clone();
    let k = committer;
    let outs = w.outsiders();
    let (o1, o2, o3) = (outs[0], outs[1], outs[2]);
    let nh = 32;
    let table = std::mem::take(&mut w.stores);
    stores::install(table);
    let r = std::panic::catch_unwind(std::panic::AssertUnwindSafe(|| {
        let mut by_ref: Vec<(usize, MlsMessage)> = vec![];
        let mut by_val: Vec<Proposal> = vec![];
        let kl = w.leaf_of(k);
        let xl = w.leaf_of(X);
        let mut prep = || -> Result<(), mls_rs::error::MlsError> {
            match bad {
                Bad::CtlRemove => by_val.push(remove(xl)),
                Bad::CtlAdd => by_val.push(add(&w.key_package(o1)?)),
                Bad::CtlPskAndGce => {
                    by_val.push(psk_external(&World::psk_id(0), nh));
                    by_val.push(gce(&w.context_ext(Some(9))));
                }
                Bad::RemoveCommitterByValue => by_val.push(remove(kl)),
                Bad::RemoveCommitterByRef => by_ref.push((A, w.propose(A, &Prop::Remove(k))?.0)),
                Bad::UpdateOfCommitterByRef => by_ref.push((k, w.propose_update(k)?)),
                Bad::UpdateByValue => {
                    let m = w.clone().propose_update(X)?;
                    match body_of(&m) {
                        Some(p) => by_val.push(p),
                        None => crate::engine::machinery("C10y: cannot extract the Update proposal body"),
                    }
                }
                Bad::TwoRemovesOfOneLeaf => {
                    by_val.push(remove(xl));
                    by_val.push(remove(xl));
                }
                Bad::RemoveAndUpdateOfOneLeaf => {
                    by_ref.push((X, w.propose_update(X)?));
                    by_val.push(remove(xl));
                }
                Bad::DuplicatePsk => {
                    by_val.push(psk_external(&World::psk_id(0), nh));
                    by_val.push(psk_external(&World::psk_id(0), nh));
                }
                Bad::PskNonceTooShort => by_val.push(psk_external(&World::psk_id(0), 1)),
                Bad::PskResumptionWithReinitUsage => by_val.push(psk_resumption(2, &w.group_id.clone(), w.g(k).current_epoch() - 1, nh)),
                Bad::PskResumptionWithBranchUsage => by_val.push(psk_resumption(3, &w.group_id.clone(), w.g(k).current_epoch() - 1, nh)),
                Bad::TwoGce => {
                    by_val.push(gce(&w.context_ext(Some(1))));
                    by_val.push(gce(&w.context_ext(Some(2))));
                }
                Bad::GceRequiresUnsupportedExtension => {
                    // required_capabilities (type 3) naming extension type 0xff00
                    let mut req = vec![];
                    put_vbytes(&mut req, &[0xff, 0x00]);
                    put_vbytes(&mut req, &[]);
                    put_vbytes(&mut req, &[]);
                    // keep the current extensions and add the requirement
                    let cur = w.g(k).context().extensions.mls_encode_to_vec().expect("MACHINERY: ext");
                    let mut rd = crate::reference::tls::Rd::new(&cur);
                    let inner = rd.vbytes().unwrap_or(&[]).to_vec();
                    let mut list = inner;
                    list.extend_from_slice(&3u16.to_be_bytes());
                    put_vbytes(&mut list, &req);
                    let mut b = vec![0u8, 7];
                    put_vbytes(&mut b, &list);
                    by_val.push(dec(&b));
                    let _ = gce_raw;
                }
                Bad::ReInitWithAdd => {
                    by_val.push(reinit(REINIT_GROUP_ID, 1, w.cfg.suite));
                    by_val.push(add(&w.key_package(o1)?));
                }
                Bad::ReInitWithOtherVersion => by_val.push(reinit(REINIT_GROUP_ID, 0, w.cfg.suite)),
                Bad::AddExistingMember => by_val.push(add(&w.key_package(B)?)),
                Bad::AddExpired => {
                    let kp = w.parties[o2].client.generate_key_package_message(Default::default(), Default::default(), Some(time(w.clock - 3 * 366 * 86400)))?;
                    by_val.push(add(&kp));
                }
                Bad::AddSameIdentityTwice => {
                    by_val.push(add(&w.key_package(o1)?));
                    by_val.push(add(&w.key_package(o1)?));
                }
                Bad::AddOfOtherSuite => {
                    let (client, _, _) = make_client(&WorldCfg { suite: 2, ..w.cfg.clone() }, o3 as u32, &w.parties[o3].name.clone(), None);
                    let kp = client.generate_key_package_message(Default::default(), Default::default(), w.now())?;
                    by_val.push(add(&kp));
                }
                Bad::RemoveBlankLeaf => by_val.push(remove(5)),
                Bad::RemoveBeyondTree => by_val.push(remove(1000)),
                Bad::CustomOfUnsupportedType => by_val.push(custom(0xf123, b"x")),
                Bad::ExternalSenderUpdate => {
                    let g = w.clone().propose_update(A)?;
                    match super::c10x::reissue_as_external(&w, &g) {
                        Some(m) => by_ref.push((usize::MAX, m)),
                        None => crate::engine::machinery("C10y: cannot re-issue the Update as external sender"),
                    }
                }
            }
            Ok(())
        };
        if let Err(e) = prep() {
            ctx.outcome(format!("not-constructible:{bad:?}:{}", err_name(&e)));
            return;
        }
        // by-reference proposals reach everybody (they are individually well-formed); a member
        // that refuses one of them at receipt simply will not know it
        let members = w.members();
        let mut knows: Vec<bool> = members.iter().map(|_| true).collect();
        for (from, m) in &by_ref {
            for (pi, &p) in members.iter().enumerate() {
                if p == *from {
                    continue;
                }
                if w.process(p, m).is_err() {
                    knows[pi] = false;
                }
            }
        }
        // the adversarial commit
        let now = w.now();
        lenient::set(true);
        let built = {
            let mut b = w.gm(k).commit_builder();
            for p in &by_val {
                b = b.raw_proposal(p.clone());
            }
            if let Some(t) = now {
                b = b.commit_time(t);
            }
            b.build()
        };
        lenient::set(false);
        let out = match built {
            Ok(o) => o,
            Err(e) => {
                ctx.outcome(format!("lenient-build-fails:{bad:?}:{}", err_name(&e)));
                if bad.is_control() {
                    ctx.violation(format!("control-commit-not-buildable|{bad:?}|{}", err_name(&e)), format!("{e:?} [{label}]"));
                }
                return;
            }
        };
        // what the commit really carries (the lenient filter does not cover every rule: some
        // invalid proposals are still dropped by the committer, and then the commit is valid)
        let carried = (|| {
            let b = out.commit_message.mls_encode_to_vec().ok()?;
            let lay = layout(&b).ok()?;
            let r = lay.region("commit.proposals")?;
            let mut rd = crate::reference::tls::Rd::new(&b[r.start..r.end]);
            let list = rd.vbytes().ok()?;
            let mut rd = crate::reference::tls::Rd::new(list);
            let (mut by_value, mut refs) = (0usize, 0usize);
            while !rd.done() {
                match rd.u8().ok()? {
                    1 => {
                        crate::reference::framing::skip_proposal(&mut rd).ok()?;
                        by_value += 1;
                    }
                    2 => {
                        rd.vbytes().ok()?;
                        refs += 1;
                    }
                    _ => return None,
                }
            }
            Some((by_value, refs))
        })();
        let Some((n_val, n_ref)) = carried else { crate::engine::machinery("C10y: cannot parse the commit's proposal list") };
        if !bad.is_control() && (n_val < by_val.len() || n_ref < by_ref.len()) {
            ctx.outcome(format!("lenient-committer-still-dropped:{bad:?}"));
            return;
        }
        ctx.goal(if bad.is_control() { "adversarial-procedure-validated" } else { "invalid-commit-built" });
        for (pi, &p) in members.iter().enumerate() {
            if p == k {
                continue;
            }
            let pre = effective(w.g(p), p as u32);
            ctx.eval();
            match w.process(p, &out.commit_message) {
                Ok(ReceivedMessage::Commit(d)) => {
                    let label = format!("{label}; the receiver reports (applied, unused) = {:?}", super::c10x::summary(&d));
                    if bad.is_control() {
                        ctx.outcome("control:accepted");
                    } else {
                        ctx.violation(format!("invalid-commit-accepted|{bad:?}"), format!("{} accepted a commit carrying {bad:?} (knows the referenced proposals: {}) [{label}]", w.parties[p].name, knows[pi]));
                    }
                }
                Ok(_) => ctx.violation("commit-reported-as-other-kind", format!("[{label}]")),
                Err(e) => {
                    if bad.is_control() {
                        ctx.violation(format!("control-commit-refused|{bad:?}|{}", err_name(&e)), format!("the adversarial-committer procedure does not reproduce an acceptable commit over valid proposals: {e:?} [{label}]"));
                    } else {
                        ctx.outcome(format!("refused:{bad:?}:{}", err_name(&e)));
                        let post = effective(w.g(p), p as u32);
                        let d = diff(&pre, &post, &[]);
                        if !d.is_empty() {
                            ctx.violation(format!("refusing-member-changed|{bad:?}|{}|{}", err_name(&e), diff_classes(&d)), format!("{} refused the commit but changed in {d:?} [{label}]", w.parties[p].name));
                        }
                    }
                }
            }
        }
        ctx.report.traces += 1;
        ctx.extra("states", 1);
    }));
    lenient::set(false);
    let _ = stores::uninstall();
    ctx.report.transitions += 1;
    if r.is_err() {
        let (loc, msg, lib) = take_panic();
        if lib {
            ctx.violation(format!("panic|{bad:?}|{loc}"), format!("library panicked: {msg} [{label}]"));
        } else {
            crate::engine::machinery(&format!("harness panic at {loc}: {msg}"));
        }
    }
}

pub fn run(ctx: &mut Ctx) {
    let base = vec![base_world(false), base_world(true)];
    let committers: Vec<usize> = if ctx.quick() { vec![0] } else { vec![0, 2, 4] };
    let mut i = 0;
    for bad in ALL {
        for &k in &committers {
            if ctx.mine(700_000 + i) {
                run_case(&base, bad, k, ctx);
            }
            i += 1;
        }
    }
    if ctx.mine(700_000 + i) {
        external_commit_removals(&base[0], ctx);
    }
    if ctx.shard.0 == 0 {
        ctx.sample(json!({"adversarial_committer": "TwoRemovesOfOneLeaf", "expect": "every receiver refuses and is unchanged"}));
    }
}

/// External commits that remove a leaf: RFC 9420 12.4.3.2 allows at most one Remove in an
/// external commit and only of a leaf with the joiner's own identity (re-sync). An ex-member that
/// comes back may remove its old leaf if it is still there; an outsider that "removes" somebody
/// else's leaf must be refused by every member (leniently built where the library would not
/// build it itself).
fn external_commit_removals(base: &World, ctx: &mut Ctx) {
    let members = base.members();
    let outs = base.outsiders();
    for &victim in &members {
        for lenient_on in [false, true] {
            let mut w = base.clone();
            let joiner = outs[0];
            let label = format!("external commit by outsider {} that removes the leaf of member {} (lenient filter {lenient_on})", w.parties[joiner].name, w.parties[victim].name);
            ctx.cur_trail = vec![label.clone()];
            let table = std::mem::take(&mut w.stores);
            stores::install(table);
            let r = std::panic::catch_unwind(std::panic::AssertUnwindSafe(|| {
                let Some(&helper) = members.iter().find(|m| **m != victim) else { return };
                let Ok(gi) = w.g(helper).group_info_message_allowing_ext_commit(true) else { return };
                let Ok(mut b) = w.parties[joiner].client.external_commit_builder() else { return };
                b = b.with_removal(w.leaf_of(victim));
                if let Some(t) = w.now() {
                    b = b.commit_time(t);
                }
                lenient::set(lenient_on);
                let built = b.build(gi);
                lenient::set(false);
                ctx.eval();
                let msg = match built {
                    Ok((_g, m)) => m,
                    Err(e) => {
                        ctx.outcome(format!("external-removal-of-other-member:build-refused:{}", err_name(&e)));
                        ctx.goal("external-commit-removing-another-member");
                        return;
                    }
                };
                ctx.goal("external-commit-removing-another-member");
                for &p in &members {
                    let pre = effective(w.g(p), p as u32);
                    ctx.eval();
                    match w.process(p, &msg) {
                        Ok(_) => ctx.violation(
                            "external-commit-removing-another-identity-accepted",
                            format!("{} accepted an external commit in which the new member removes the leaf of {}, whose identity is not the joiner's [{label}]", w.parties[p].name, w.parties[victim].name),
                        ),
                        Err(e) => {
                            ctx.outcome(format!("external-removal-of-other-member:refused:{}", err_name(&e)));
                            let post = effective(w.g(p), p as u32);
                            let d = diff(&pre, &post, &[]);
                            if !d.is_empty() {
                                ctx.violation(format!("refusing-member-changed|external-removal|{}|{}", err_name(&e), diff_classes(&d)), format!("{d:?} [{label}]"));
                            }
                        }
                    }
                }
            }));
            lenient::set(false);
            let _ = stores::uninstall();
            ctx.report.transitions += 1;
            if r.is_err() {
                let (loc, msg, lib) = take_panic();
                if lib {
                    ctx.violation(format!("panic|external-removal|{loc}"), format!("library panicked: {msg} [{label}]"));
                } else {
                    crate::engine::machinery(&format!("harness panic at {loc}: {msg}"));
                }
            }
        }
    }
}
