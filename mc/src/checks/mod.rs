//! One module per property (or family); `run` executes the work of one shard.

use serde_json::{json, Value};

use crate::engine::Ctx;

pub mod c01;
pub mod c03;
pub mod c03x;
pub mod c04;
pub mod c05;
pub mod c06;
pub mod c07x;
pub mod c10;
pub mod c10x;
pub mod c10y;
pub mod c10z;
pub mod c11;
pub mod c12;
pub mod c13;
pub mod c14;
pub mod c15;
pub mod c16;
pub mod c17;
pub mod c18;
pub mod c19;
pub mod c20;
pub mod history;

pub struct Meta {
    pub level: &'static str,
    pub rule: String,
    pub assumptions: Vec<String>,
    pub bounds: Value,
    /// goals that must have been hit at least once, or the run is vacuous (exit 2)
    pub required_goals: Vec<&'static str>,
    /// minimum number of distinct oracle outcomes expected
    pub min_outcomes: usize,
    pub workers: usize,
}

/// Modules with the uniform interface meta(tier) / run(ctx) / replay(ctx, path).
macro_rules! simple_checks {
    ($($id:literal => $m:ident),* $(,)?) => {
        pub fn meta(id: &str, tier: &str) -> Option<Meta> {
            match id {
                "C01" | "C02" | "C04" | "C07" | "C08" | "C09" | "C16" => Some(c01::meta(id, tier)),
                $($id => Some($m::meta(tier)),)*
                _ => None,
            }
        }

        pub fn run(id: &str, ctx: &mut Ctx) {
            match id {
                "C01" | "C02" | "C04" | "C07" | "C08" | "C09" | "C16" => c01::run(id, ctx),
                $($id => $m::run(ctx),)*
                _ => crate::engine::machinery("unknown property id"),
            }
        }

        pub fn replay(id: &str, ctx: &mut Ctx, path: &[usize]) {
            match id {
                "C01" | "C02" | "C04" | "C07" | "C08" | "C09" | "C16" => c01::replay(id, ctx, path),
                $($id => $m::replay(ctx, path),)*
                _ => crate::engine::machinery("replay not supported for this property"),
            }
        }
    };
}

simple_checks! {
    "C10" => c10,
    "C11" => c11,
    "C03" => c03,
    "C05" => c05,
    "C06" => c06,
    "C12" => c12,
    "C13" => c13,
    "C14" => c14,
    "C15" => c15,
    "C17" => c17,
    "C18" => c18,
    "C19" => c19,
    "C20" => c20,
}

pub fn default_assumptions() -> Vec<String> {
    vec![
        "bounded: only the stated alphabet, depth, seeds and identities are covered".into(),
        "crypto providers are used as black boxes; cryptographic strength is not a subject".into(),
        "every execution is an execution of the real mls-rs code in /repo (built with feature verif_hooks); there is no separate model to conform".into(),
    ]
}

pub fn bounds_json(pairs: &[(&str, Value)]) -> Value {
    let mut m = serde_json::Map::new();
    for (k, v) in pairs {
        m.insert((*k).into(), v.clone());
    }
    json!(m)
}
