//! The group-history model shared by C01, C02, C07, C08, C09: rounds of real operations on a
//! world of real members, every action sequence up to the depth bound, oracles on every step.

use mls_rs::group::{CommitEffect, ReceivedMessage};
use mls_rs::MlsMessage;

use crate::engine::{take_panic, Ctx, Model, Step};
use crate::oracles::*;
use crate::providers::{log_start, log_take};
use crate::reference::treebytes::Tree;
use crate::stores;
use crate::world::*;

#[derive(Clone, Debug, Default)]
pub struct Monitors {
    pub decrypt: bool,
    pub recipients: bool,
    pub ghosts: bool,
    pub tree: bool,
    pub observer: bool,
    pub privkeys: bool,
    pub joiner: bool,
    /// C04 probe in every state
    pub reject: bool,
    /// C16 external observers
    pub external: bool,
}

#[derive(Clone, Debug, PartialEq, Eq)]
pub enum Act {
    Commit { by: usize, spec: CommitSpec },
    Propose { by: usize, prop: Prop },
    ProposeUpdate { by: usize },
    External { by: usize, resync: bool },
    /// an observer acting as the group's external sender proposes a Remove / an Add (C16)
    ExternalPropose { remove: bool },
    /// deviation: `loser` builds a commit of its own first (left pending; with an Add when
    /// `loser_adds`), then the round of `by` wins the epoch and the loser receives it
    Raced { by: usize, spec: CommitSpec, loser: usize, loser_adds: bool },
    /// deviation: the committer receives its own commit back from the delivery service instead
    /// of calling apply_pending_commit
    Echoed { by: usize, spec: CommitSpec },
    /// an outsider sends a new-member Add proposal for itself (C16)
    NewMemberPropose,
}

/// How a commit round departs from the default environment.
#[derive(Clone, Copy, Debug, PartialEq, Eq)]
pub enum Dev {
    None,
    Race { loser: usize, adds: bool },
    Echo,
}

#[derive(Clone)]
pub struct HState {
    pub w: World,
    /// key packages of outstanding by-reference Add proposals
    pub pending_adds: Vec<(usize, MlsMessage)>,
    /// handshake messages of the last round (for wrong-epoch replays)
    pub last_round_msgs: Vec<MlsMessage>,
    pub obs: super::c16::ObsState,
    /// deviating rounds taken so far on this path
    pub deviations: u8,
    /// parties that entered the group through a Welcome or an external commit (seed script included)
    pub joiners: std::collections::BTreeSet<usize>,
}

#[derive(Clone, Debug, PartialEq, Eq)]
pub enum Alphabet {
    Full,
    /// tree-shaping operations only (C08 goes one level deeper with it)
    TreeShaping,
}

pub struct HistoryModel {
    pub cfgs: Vec<WorldCfg>,
    pub mon: Monitors,
    pub n_parties: usize,
    pub depth_initial: usize,
    pub depth_gallery: usize,
    pub alphabet: Alphabet,
    /// which gallery seeds (by name) to use; empty = all
    pub seeds: Vec<&'static str>,
    pub all_proposers: bool,
    /// deviation bound K: at most this many deviating rounds (Raced / Echoed) per path
    pub max_deviations: u8,
}

/// number of gallery seeds (S0..S11)
const GALLERY_SIZE: usize = 12;

fn commit_spec(props: Vec<Prop>) -> CommitSpec {
    CommitSpec { props, rekey: false, aad: vec![] }
}

impl HistoryModel {
    fn initial(&self, cfg: &WorldCfg) -> HState {
        let mut w = World::new(cfg.clone(), self.n_parties);
        for p in 0..self.n_parties {
            w.set_psk(p, 0, b"psk-zero-value".to_vec());
        }
        HState { w, pending_adds: vec![], last_round_msgs: vec![], obs: Default::default(), deviations: 0, joiners: Default::default() }
    }

    /// Scripted seed: apply a list of rounds through the same step function (oracles included).
    fn script(&self, cfg: &WorldCfg, name: &str, acts: Vec<Act>, ctx: &mut Ctx) -> Option<HState> {
        let mut s = self.initial(cfg);
        let r = s.w.run(|w| w.create(0));
        if !matches!(r, Ok(Ok(()))) {
            crate::engine::machinery("seed: create failed");
        }
        ctx.cur_trail = vec![format!("seed-script {name}")];
        ctx.path = vec![];
        if self.mon.external {
            let table = std::mem::take(&mut s.w.stores);
            stores::install(table);
            super::c16::spawn(&mut s, ctx);
            s.w.stores = stores::uninstall();
        }
        for a in acts {
            ctx.cur_trail.push(format!("{a:?}"));
            if let Step::Stop = self.step(&mut s, &a, ctx) {
                ctx.note(format!("seed {name} could not be built (step {a:?} stopped)"));
                return None;
            }
        }
        Some(s)
    }

    fn gallery(&self, cfg: &WorldCfg, ctx: &mut Ctx) -> Vec<(String, HState)> {
        use Act::*;
        use Prop::*;
        let c = |by: usize, props: Vec<Prop>| Commit { by, spec: commit_spec(props) };
        let s1 = vec![c(0, vec![Add(1), Add(2), Add(3)])];
        let mut s2 = s1.clone();
        s2.extend([c(1, vec![]), c(2, vec![]), c(3, vec![])]);
        let mut s3 = s2.clone();
        s3.push(c(0, vec![Remove(1)]));
        let mut s4 = s3.clone();
        s4.push(c(2, vec![Add(4)]));
        let mut s5 = s2.clone();
        s5.extend([c(0, vec![Add(4)]), c(3, vec![Remove(4)])]);
        let mut s6 = s5.clone();
        s6.push(c(1, vec![Add(4)]));
        let mut s7 = s2.clone();
        s7.push(External { by: 3, resync: true });
        let mut s8 = s2.clone();
        s8.extend([ProposeUpdate { by: 0 }, Propose { by: 1, prop: Remove(2) }, c(3, vec![])]);
        let mut s9 = s1.clone();
        s9.push(c(0, vec![Remove(2), Remove(3)]));
        // five members in an 8-leaf tree, then leaves 1..3 blanked: A _ _ _ E (a joiner lands at
        // leaf 1 under a parent whose other subtree is entirely blank: filtered direct path)
        let mut s10 = s2.clone();
        s10.extend([c(0, vec![Add(4)]), c(4, vec![]), c(0, vec![Remove(1), Remove(2)]), c(0, vec![Remove(3)])]);
        // five members in an 8-leaf tree with an interior blank leaf under a re-keyed parent and a
        // member outside that parent's subtree: A _ C D E (an Add committed with a path by E puts
        // the joiner at leaf 1; receivers below node 3 must skip it in node 3's resolution)
        let mut s11 = s2.clone();
        s11.extend([c(0, vec![Add(4)]), c(4, vec![]), c(0, vec![Remove(1)])]);
        // eight members, dense, every parent filled (needs 8 parties; skipped in smaller worlds)
        let mut s12 = s2.clone();
        s12.extend([c(0, vec![Add(4), Add(5), Add(6), Add(7)]), c(4, vec![]), c(5, vec![]), c(6, vec![]), c(7, vec![])]);
        // the same with blank leaves 1 and 5 under re-keyed parents, removed from the other half
        let mut s13 = s12.clone();
        s13.extend([c(6, vec![Remove(1)]), c(2, vec![Remove(5)])]);
        // eight members again, two of them re-added without a path: unmerged leaves 3 and 6 under
        // parents that other members filled
        let mut s14 = s12.clone();
        s14.extend([c(0, vec![Remove(3)]), c(5, vec![Remove(6)]), c(1, vec![Add(3), Add(6)])]);
        // nine members (16-leaf tree), then leaves 1..3 blanked: A _ _ _ E F G H | I. A joiner added
        // by A with a path lands at leaf 1 below a filtered node (3) that has unfiltered nodes above
        let mut s16 = s12.clone();
        s16.extend([c(0, vec![Add(8)]), c(8, vec![]), c(0, vec![Remove(1), Remove(2), Remove(3)])]);
        let all: Vec<(&str, Vec<Act>)> = vec![
            ("S0", vec![]),
            ("S1", s1),
            ("S2", s2),
            ("S3", s3),
            ("S4", s4),
            ("S5", s5),
            ("S6", s6),
            ("S7", s7),
            ("S8", s8),
            ("S9", s9),
            ("S10", s10),
            ("S11", s11),
            ("S12", s12),
            ("S13", s13),
            ("S14", s14),
            ("S16", s16),
        ];
        let mut out = vec![];
        for (name, acts) in all {
            if !self.seeds.is_empty() && !self.seeds.contains(&name) {
                continue;
            }
            // the 8-member seeds are used only where a model asks for them by name
            if matches!(name, "S12" | "S13" | "S14" | "S16") && (self.seeds.is_empty() || self.n_parties < 9) {
                continue;
            }
            if let Some(s) = self.script(cfg, name, acts, ctx) {
                out.push((format!("{name}/{}", cfg.label()), s));
            }
        }
        out
    }

    // ------------------------------------------------------------------------------ rounds

    fn after_epoch_change(&self, w: &mut World, how: &str, committer: Option<usize>, prev_tree: &[u8], had_path: bool, ctx: &mut Ctx) {
        let members = w.members();
        for &p in &members {
            ledger_observe(w, p, how, ctx);
        }
        if self.mon.decrypt {
            pairwise_decrypt(w, ctx);
        }
        if self.mon.tree || self.mon.privkeys {
            for &p in &members {
                let t = if self.mon.tree { tree_check(w, p, ctx) } else { Tree::parse(&tree_bytes(w.g(p))).ok() };
                if self.mon.privkeys {
                    if let Some(t) = &t {
                        privkey_check(w, p, t, ctx);
                    }
                }
            }
        }
        // one member per round is also looked at as a copy reloaded from storage (its caches
        // were rebuilt by load_group): same observable epoch state, valid tree, right keys
        if self.mon.decrypt || self.mon.tree || self.mon.privkeys {
            if let Some(&p) = members.get((w.epoch() as usize + 1) % members.len().max(1)) {
                let gid = w.g(p).group_id().to_vec();
                let loaded = stores::with_fork(|| {
                    let mut g = w.g(p).clone();
                    g.write_to_storage().ok()?;
                    w.parties[p].client.load_group(&gid).ok()
                });
                ctx.eval();
                let prop = if self.mon.tree { "C08" } else if self.mon.privkeys { "C09" } else { "C01" };
                match loaded {
                    Some(g) => {
                        ctx.goal("reloaded-copy");
                        let before = ledger_entry(w, p);
                        // look at the reloaded copy in the member's place, then put the live one back
                        let live = w.parties[p].group.replace(g);
                        let after = ledger_entry(w, p);
                        if before.context != after.context || before.tree != after.tree || before.authenticator != after.authenticator || before.exports != after.exports || before.roster != after.roster {
                            ctx.violation_for(prop, "reloaded-copy-differs", format!("{} reloaded from storage after {how} differs from the live member in its observable epoch state", w.parties[p].name));
                        }
                        if self.mon.tree {
                            tree_check(w, p, ctx);
                        }
                        if self.mon.privkeys {
                            if let Ok(t) = Tree::parse(&tree_bytes(w.g(p))) {
                                privkey_check(w, p, &t, ctx);
                            }
                        }
                        w.parties[p].group = live;
                    }
                    None => ctx.violation_for(prop, "write-or-reload-failed", format!("{} cannot be written to storage and loaded again after {how}", w.parties[p].name)),
                }
            }
        }
        if self.mon.privkeys {
            // a leaf private key replaced by an own update or commit must be gone: it may not
            // occur anywhere in what the member would store (snapshot incl. private tree,
            // pending updates, pending commit)
            let gone: Vec<usize> = w.leaf_sk.keys().copied().filter(|p| !members.contains(p)).collect();
            for p in gone {
                w.leaf_sk.remove(&p);
            }
            for &p in &members {
                let (_, keys) = w.g(p).verif_private_keys();
                let Some(Some(cur)) = keys.first().cloned() else { continue };
                if let Some(old) = w.leaf_sk.get(&p) {
                    if *old != cur {
                        ctx.eval();
                        ctx.goal("leaf-key-replaced");
                        let snap = w.g(p).verif_snapshot_bytes();
                        if !old.is_empty() && snap.windows(old.len()).any(|x| x == &old[..]) {
                            ctx.violation_for("C09", "replaced-leaf-key-retained", format!("{} replaced its leaf key in this round ({how}) but the old private key is still part of its stored state", w.parties[p].name));
                        } else {
                            ctx.outcome("replaced-leaf-key:gone");
                        }
                    }
                }
                w.leaf_sk.insert(p, cur);
            }
        }
        if self.mon.observer {
            // one member's copy per round is given to a fresh observer (the copies are
            // byte-compared by the ledger); rotate which one
            if let Some(&p) = members.get((w.epoch() as usize) % members.len().max(1)) {
                observer_validation(w, p, ctx);
            }
        }
        if self.mon.privkeys && had_path {
            if let Some(c) = committer {
                if w.is_member(c) {
                    if let Ok(t) = Tree::parse(&tree_bytes(w.g(c))) {
                        fresh_path_check(w.leaf_of(c), prev_tree, &t, ctx);
                    }
                }
            }
        }
    }

    /// Messages of a later epoch offered to every ghost and outsider: must be rejected.
    fn ghost_check(&self, w: &World, round_msgs: &[(String, MlsMessage)], welcomes: &[MlsMessage], joined_now: &[usize], ctx: &mut Ctx) {
        if !self.mon.ghosts {
            return;
        }
        let members = w.members();
        let mut msgs: Vec<(String, MlsMessage)> = round_msgs.to_vec();
        // fresh traffic of the new epoch, produced on forks
        if let Some(&m) = members.first() {
            let mut g = w.g(m).clone();
            if let Ok(app) = g.encrypt_application_message(b"later traffic", vec![]) {
                msgs.push(("application".into(), app));
            }
            let mut g = w.g(m).clone();
            if let Ok(pr) = g.propose_update(vec![]) {
                msgs.push(("proposal".into(), pr));
            }
            let mut g = w.g(m).clone();
            if let Ok(cm) = stores::with_fork(|| g.commit(vec![])) {
                msgs.push(("commit".into(), cm.commit_message));
            }
        }
        for gh in &w.ghosts {
            for (kind, m) in &msgs {
                // only traffic of later epochs: messages of the ghost's last epoch (among them the
                // commit that removes it, which is how it learns of the removal) are legitimately readable
                if m.epoch().map(|e| e <= gh.removed_at_epoch).unwrap_or(false) {
                    continue;
                }
                let mut g = gh.group.clone();
                ctx.eval();
                let r = stores::with_fork(|| g.process_incoming_message_with_time(m.clone(), time(w.clock)));
                match r {
                    Err(_) => ctx.outcome(format!("ghost-rejects:{kind}")),
                    Ok(_) => ctx.violation_for("C02", format!("ghost-accepts|{kind}|saw_removal={}", gh.saw_removal), format!("removed member {} (removed at epoch {}) processed a {kind} of epoch {:?}", gh.name, gh.removed_at_epoch, m.epoch())),
                }
            }
            // never learns later authenticators / exports
            let auth = gh.group.epoch_authenticator().map(|s| s.as_bytes().to_vec()).unwrap_or_default();
            let exp = gh.group.export_secret(EXPORTS[0].0, EXPORTS[0].1, EXPORTS[0].2).map(|s| s.as_bytes().to_vec()).unwrap_or_default();
            for ((_, e), entry) in &w.ledger {
                if *e > gh.removed_at_epoch {
                    ctx.eval();
                    if entry.authenticator == auth || entry.exports[0] == exp {
                        ctx.violation_for("C02", "ghost-knows-later-secret", format!("removed member {} holds the epoch authenticator / exported secret of later epoch {e}", gh.name));
                    }
                }
            }
        }
        for o in w.outsiders() {
            if joined_now.contains(&o) {
                continue;
            }
            for wm in welcomes {
                ctx.eval();
                let client = w.parties[o].client.clone();
                let tree = members.first().map(|m| w.g(*m).export_tree().into_owned());
                let r = stores::with_fork(|| client.join_group(tree, wm, w.now()));
                match r {
                    Err(_) => ctx.outcome("outsider-rejects:welcome"),
                    Ok(_) => ctx.violation_for("C02", "outsider-joins-with-foreign-welcome", format!("{} obtained a group from a Welcome not addressed to it", w.parties[o].name)),
                }
            }
        }
    }

    fn joiner_check(&self, w: &World, x: usize, kp: &MlsMessage, ctx: &mut Ctx) {
        if !self.mon.joiner {
            return;
        }
        let cs = cs_of(w, x);
        let Ok(Some(kref)) = kp.key_package_reference(&cs) else { return };
        let kref = kref.to_vec();
        ctx.eval();
        // before the joiner persists: the key package is still there
        let present = stores::peek(x as u32, |s| s.kps.contains_key(&kref));
        if !present {
            ctx.violation_for("C07", "key-package-gone-before-write", format!("{}: key package deleted before the new group was persisted", w.parties[x].name));
        }
        stores::with_fork(|| {
            let mut g = w.g(x).clone();
            match g.write_to_storage() {
                Ok(()) => {
                    let still = stores::peek(x as u32, |s| s.kps.contains_key(&kref));
                    if still {
                        ctx.violation_for("C07", "key-package-kept-after-write", format!("{}: key package private keys still in the store after write_to_storage", w.parties[x].name));
                    } else {
                        ctx.outcome("joiner:key-package-deleted-on-write");
                    }
                }
                Err(e) => ctx.violation_for("C07", format!("joiner-write-failed|{}", err_name(&e)), format!("{}: write_to_storage after joining failed: {e:?}", w.parties[x].name)),
            }
            // the joiner can commit at once and everybody accepts
            let mut g = w.g(x).clone();
            match g.commit(vec![]) {
                Ok(out) => {
                    for m in w.members() {
                        if m == x {
                            continue;
                        }
                        let mut gm = w.g(m).clone();
                        ctx.eval();
                        match gm.process_incoming_message_with_time(out.commit_message.clone(), time(w.clock)) {
                            Ok(_) => ctx.outcome("joiner:commit-accepted"),
                            Err(e) => ctx.violation_for("C07", format!("joiner-commit-rejected|{}", err_name(&e)), format!("{} rejects the first commit of joiner {}: {e:?}", w.parties[m].name, w.parties[x].name)),
                        }
                    }
                }
                Err(e) => ctx.violation_for("C07", format!("joiner-cannot-commit|{}", err_name(&e)), format!("joiner {} cannot commit: {e:?}", w.parties[x].name)),
            }
        });
    }

    fn do_commit(&self, s: &mut HState, by: usize, spec: &CommitSpec, dev: Dev, ctx: &mut Ctx) -> Step {
        if dev != Dev::None {
            s.deviations += 1;
        }
        let w = &mut s.w;
        if let Dev::Race { loser, adds } = dev {
            // the loser's commit is built first and stays pending
            let lspec = match (adds, w.outsiders().first()) {
                (true, Some(o)) => commit_spec(vec![Prop::Add(*o)]),
                _ => commit_spec(vec![]),
            };
            match w.commit(loser, &lspec) {
                Ok(_) => {
                    w.parties[loser].pending_rekey = None;
                    ctx.goal("race");
                }
                Err(e) => {
                    ctx.outcome(format!("race:loser-build-err:{}", err_name(&e)));
                    return Step::Stop;
                }
            }
        }
        let pre_members = w.members();
        let pre_epoch = w.g(by).current_epoch();
        let prev_tree_bytes = tree_bytes(w.g(by));
        let committer_leaf = w.leaf_of(by);
        let had_cached_refs = !w.g(by).get_cached_proposals().is_empty();
        log_start();
        let built = w.commit(by, spec);
        let recs = log_take();
        let built = match built {
            Ok(b) => b,
            Err(e) => {
                ctx.outcome(format!("commit-build-err:{}", err_name(&e)));
                return Step::Stop;
            }
        };
        if w.g(by).current_epoch() != pre_epoch {
            ctx.violation_for("C11", "commit-build-changes-epoch", "building a commit moved the committer's epoch");
        }
        let had_path = built.out.contains_update_path;
        if !had_path {
            ctx.goal("commit-without-path");
        }
        let msg = built.out.commit_message.clone();
        let mut removed_now: Vec<usize> = vec![];
        let old_tree = Tree::parse(&prev_tree_bytes).ok();
        // deliver to every other member, in index order
        for &p in &pre_members {
            if p == by {
                continue;
            }
            let e0 = w.g(p).current_epoch();
            let before = w.g(p).clone();
            ctx.eval();
            match w.process(p, &msg) {
                Ok(ReceivedMessage::Commit(d)) => match d.effect {
                    CommitEffect::NewEpoch(ref ne) => {
                        // RFC 9420 12.4: a commit whose proposal list is empty or contains an
                        // Update, Remove, ExternalInit or GroupContextExtensions must carry an
                        // update path -- otherwise commit_secret is zero and a member removed by
                        // this very commit can compute the new epoch from the old init secret
                        if self.mon.recipients || self.mon.ghosts {
                            use mls_rs::group::proposal::Proposal as P;
                            let needs = ne.applied_proposals.is_empty() || ne.applied_proposals.iter().any(|p| matches!(p.proposal, P::Update(_) | P::Remove(_) | P::ExternalInit(_) | P::GroupContextExtensions(_)));
                            ctx.eval();
                            if needs && !had_path {
                                let kinds: Vec<&str> = ne
                                    .applied_proposals
                                    .iter()
                                    .map(|p| match p.proposal {
                                        P::Add(_) => "add",
                                        P::Update(_) => "update",
                                        P::Remove(_) => "remove",
                                        P::Psk(_) => "psk",
                                        P::ReInit(_) => "reinit",
                                        P::ExternalInit(_) => "external_init",
                                        P::GroupContextExtensions(_) => "gce",
                                        _ => "custom",
                                    })
                                    .collect();
                                let mut k = kinds.clone();
                                k.sort();
                                k.dedup();
                                ctx.violation_for("C02", format!("commit-without-required-path|{}", k.join("+")), format!("the commit of {} applies {kinds:?} but carries no update path: its commit secret is the all-zero string, so a member it removes (or anyone holding the old epoch's init secret) can derive the new epoch", w.parties[by].name));
                            } else if needs {
                                ctx.goal("commit-with-required-path");
                            }
                        }
                        ctx.outcome("recv-commit:NewEpoch");
                        if w.g(p).current_epoch() != e0 + 1 {
                            ctx.violation_for("C01", "epoch-not-plus-one", format!("{} went from epoch {e0} to {}", w.parties[p].name, w.g(p).current_epoch()));
                        }
                    }
                    CommitEffect::Removed { .. } => {
                        ctx.outcome("recv-commit:Removed");
                        // ghost variants: one that processed its removal, one that never saw it
                        let after = w.parties[p].group.take().unwrap();
                        ctx.outcome(format!("removed-member-epoch-delta:{}", after.current_epoch() - e0));
                        let name = w.parties[p].name.clone();
                        w.ghosts.push(Ghost { name: name.clone(), party: p as u32, group: after, saw_removal: true, removed_at_epoch: e0 });
                        w.ghosts.push(Ghost { name, party: p as u32, group: before, saw_removal: false, removed_at_epoch: e0 });
                        removed_now.push(p);
                    }
                    CommitEffect::ReInit(_) => ctx.outcome("recv-commit:ReInit"),
                },
                Ok(_) => ctx.violation_for("C01", "commit-reported-as-other-kind", "a commit was reported as another message kind"),
                Err(e) => {
                    let sig = format!("receiver-rejects-honest-commit|{}", err_name(&e));
                    let det = format!("{} rejects the commit of {} at epoch {e0}: {e:?}", w.parties[p].name, w.parties[by].name);
                    ctx.violation_for("C01", sig.clone(), det.clone());
                    ctx.violation_for("C10", sig, det.clone());
                    if s.joiners.contains(&p) {
                        // a party that joined through a Welcome / external commit must be able to follow the group
                        ctx.violation_for("C07", format!("joiner-cannot-follow-the-group|{}", err_name(&e)), det);
                    }
                    return Step::Stop;
                }
            }
        }
        let applied = if dev == Dev::Echo {
            ctx.goal("echo");
            match w.process(by, &msg) {
                Ok(ReceivedMessage::Commit(_)) => {
                    if let Some((sk, id)) = w.parties[by].pending_rekey.take() {
                        w.set_signer(by, sk, id);
                    }
                    Ok(())
                }
                Ok(_) => {
                    ctx.violation_for("C11", "own-commit-echo-reported-as-other-kind", "the committer's own commit came back as another message kind");
                    ctx.violation_for("C01", "own-commit-echo-reported-as-other-kind", "the committer's own commit came back as another message kind");
                    return Step::Stop;
                }
                Err(e) => Err(e),
            }
        } else {
            w.apply(by).map(|_| ())
        };
        if let Err(e) = applied {
            let how = if dev == Dev::Echo { "echo-of-own-commit-failed" } else { "apply-pending-failed" };
            ctx.violation_for("C01", format!("{how}|{}", err_name(&e)), format!("{} cannot apply its own pending commit: {e:?}", w.parties[by].name));
            ctx.violation_for("C11", format!("{how}|{}", err_name(&e)), format!("{} cannot apply its own pending commit: {e:?}", w.parties[by].name));
            return Step::Stop;
        }
        if w.g(by).has_pending_commit() {
            ctx.violation_for("C11", "pending-survives-own-epoch-change", "the committer still has a pending commit after its commit took effect");
        }
        if let Dev::Race { loser, .. } = dev {
            if w.is_member(loser) && w.g(loser).has_pending_commit() {
                let det = format!("{} still holds its pending commit of epoch {pre_epoch} after processing the winning commit of {}", w.parties[loser].name, w.parties[by].name);
                ctx.violation_for("C11", "pending-survives-foreign-commit", det.clone());
                ctx.violation_for("C01", "pending-survives-foreign-commit", det);
            }
        }
        if w.g(by).current_epoch() != pre_epoch + 1 {
            ctx.violation_for("C01", "epoch-not-plus-one", format!("committer went from epoch {pre_epoch} to {}", w.g(by).current_epoch()));
        }
        // joiners: by-value adds and outstanding by-reference adds
        let mut candidates = built.added.clone();
        candidates.extend(std::mem::take(&mut s.pending_adds));
        let mut joined_now = vec![];
        let mut added_init_keys = vec![];
        let tree = if w.cfg.tree_ext { None } else { Some(w.g(by).export_tree().into_owned()) };
        for (x, kp) in &candidates {
            let cs = cs_of(w, *x);
            let Ok(Some(kref)) = kp.key_package_reference(&cs) else { continue };
            let welcome = built.out.welcome_messages.iter().find(|wm| wm.welcome_key_package_references().contains(&&kref));
            let by_value = built.added.iter().any(|(y, _)| y == x);
            let Some(welcome) = welcome else {
                if by_value {
                    ctx.violation_for("C07", "no-welcome-for-added-member", format!("commit adds {} by value but no Welcome addresses its key package", w.parties[*x].name));
                }
                continue;
            };
            if w.is_member(*x) {
                continue;
            }
            added_init_keys.push(kp.as_key_package().map(|k| k.hpke_init_key.to_vec()).unwrap_or_default());
            ctx.eval();
            match w.join(*x, welcome, tree.clone()) {
                Ok(()) => {
                    ctx.outcome("join:ok");
                    joined_now.push(*x);
                    s.joiners.insert(*x);
                    self.joiner_check(w, *x, kp, ctx);
                }
                Err(e) if spec.props.iter().any(|p| matches!(p, Prop::ResumptionPsk(_))) && err_name(&e) == "OldGroupStateNotFound" => {
                    // a joiner cannot hold the resumption PSK of an epoch it was not part of (C18)
                    ctx.outcome("join:lacks-resumption-psk(expected)");
                }
                Err(e) => {
                    let sig = format!("joiner-cannot-join|{}", err_name(&e));
                    let det = format!("{} cannot join with its Welcome at epoch {}: {e:?}", w.parties[*x].name, pre_epoch + 1);
                    ctx.violation_for("C07", sig.clone(), det.clone());
                    ctx.violation_for("C01", sig, det);
                }
            }
        }
        // C02 O1
        if self.mon.recipients {
            no_seal_to_removed(&recs, &w.ghosts, ctx);
            if let (Some(old), Ok(new)) = (&old_tree, Tree::parse(&tree_bytes(w.g(by)))) {
                let new_leaves: Vec<u32> = joined_now.iter().map(|x| w.leaf_of(*x)).collect();
                let removed_keys: Vec<Vec<u8>> = removed_now
                    .iter()
                    .filter_map(|p| w.ghosts.iter().find(|g| g.party == *p as u32).map(|g| g.group.current_member_index()))
                    .filter_map(|l| old.leaf(l).map(|lf| lf.encryption_key.clone()))
                    .collect();
                recipients_check(&recs, committer_leaf, &new, old, &added_init_keys, &new_leaves, &removed_keys, ctx);
            }
        }
        if !joined_now.is_empty() {
            if let Some(old) = &old_tree {
                if self.mon.tree {
                    // new leaves go to the leftmost blank slots of the tree after removals
                    if let Ok(new) = Tree::parse(&tree_bytes(w.g(by))) {
                        for x in &joined_now {
                            let l = w.leaf_of(*x);
                            if l < old.n_leaves() && old.leaf(l).is_some() && !removed_now.iter().any(|_| true) {
                                ctx.violation_for("C08", "new-leaf-in-occupied-slot", format!("new member placed at leaf {l} which was occupied"));
                            }
                            // every blank leaf to the left of a new leaf must not exist in the new tree
                            for left in 0..l {
                                if new.leaf(left).is_none() {
                                    ctx.violation_for("C08", "new-leaf-not-leftmost", format!("new member placed at leaf {l} although leaf {left} is blank"));
                                }
                            }
                        }
                    }
                }
                if joined_now.iter().any(|x| w.leaf_of(*x) < old.n_leaves().min((old.nodes.len() as u32 + 1) / 2)) {
                    ctx.goal("add-into-interior-blank");
                }
            }
        }
        if let Some(old) = &old_tree {
            if let Ok(new) = Tree::parse(&tree_bytes(w.g(by))) {
                if new.nodes.len() < old.nodes.len() {
                    ctx.goal("tree-shrank");
                }
                if new.nodes.len() > old.nodes.len() {
                    ctx.goal("tree-grew");
                }
                if new.nodes.iter().skip(1).step_by(2).flatten().any(|n| matches!(n, crate::reference::treebytes::Node::Parent(p) if !p.unmerged.is_empty())) {
                    ctx.goal("unmerged-leaf-under-parent");
                }
                if (0..new.nodes.len() as u32 / 2 + 1).any(|l| new.leaf(l).is_none()) {
                    ctx.goal("interior-blank-leaf");
                }
            }
        }
        self.after_epoch_change(w, "commit", Some(by), &prev_tree_bytes, had_path, ctx);
        s.last_round_msgs = vec![msg.clone()];
        let w = &mut s.w;
        let mut round = vec![("round-commit".to_string(), msg)];
        if let Some(gi) = &built.out.external_commit_group_info {
            round.push(("group-info".into(), gi.clone()));
        }
        self.ghost_check(w, &round, &built.out.welcome_messages, &joined_now, ctx);
        if self.mon.external {
            let m = round[0].1.clone();
            super::c16::on_commit(s, &m, had_cached_refs, ctx);
        }
        Step::Continue
    }

    fn do_propose(&self, s: &mut HState, by: usize, prop: Option<&Prop>, ctx: &mut Ctx) -> Step {
        let w = &mut s.w;
        let r = match prop {
            Some(p) => w.propose(by, p),
            None => w.propose_update(by).map(|m| (m, None)),
        };
        let (m, kp) = match r {
            Ok(m) => m,
            Err(e) => {
                ctx.outcome(format!("propose-err:{}", err_name(&e)));
                return Step::Stop;
            }
        };
        if let (Some(Prop::Add(x)), Some(kp)) = (prop, kp) {
            s.pending_adds.push((*x, kp));
        }
        for p in w.members() {
            if p == by {
                continue;
            }
            ctx.eval();
            match w.process(p, &m) {
                Ok(ReceivedMessage::Proposal(_)) => ctx.outcome("recv-proposal:ok"),
                Ok(_) => ctx.violation_for("C01", "proposal-reported-as-other-kind", "a proposal was reported as another message kind"),
                Err(e) => {
                    let sig = format!("receiver-rejects-honest-proposal|{}", err_name(&e));
                    ctx.violation_for("C01", sig.clone(), format!("{} rejects a proposal of {}: {e:?}", w.parties[p].name, w.parties[by].name));
                    ctx.violation_for("C10", sig, "honest proposal rejected");
                    return Step::Stop;
                }
            }
        }
        s.last_round_msgs.push(m.clone());
        let w = &mut s.w;
        self.ghost_check(w, &[("round-proposal".into(), m.clone())], &[], &[], ctx);
        if self.mon.external {
            super::c16::on_proposal(s, &m, ctx);
        }
        Step::Continue
    }

    fn do_external(&self, s: &mut HState, by: usize, resync: bool, ctx: &mut Ctx) -> Step {
        let w = &mut s.w;
        let members = w.members();
        let Some(&helper) = members.iter().find(|m| **m != by) else { return Step::Stop };
        let prev_tree_bytes = tree_bytes(w.g(helper));
        let gi = match w.g(helper).group_info_message_allowing_ext_commit(true) {
            Ok(gi) => gi,
            Err(e) => {
                ctx.outcome(format!("group-info-err:{}", err_name(&e)));
                return Step::Stop;
            }
        };
        let mut b = match w.parties[by].client.external_commit_builder() {
            Ok(b) => b,
            Err(_) => return Step::Stop,
        };
        let old_leaf = if resync { Some(w.leaf_of(by)) } else { None };
        if let Some(l) = old_leaf {
            b = b.with_removal(l);
        }
        if let Some(t) = w.now() {
            b = b.commit_time(t);
        }
        let pre_epoch = w.g(helper).current_epoch();
        let (new_group, msg) = match b.build(gi.clone()) {
            Ok(x) => x,
            Err(e) => {
                ctx.outcome(format!("external-commit-build-err:{}", err_name(&e)));
                return Step::Stop;
            }
        };
        if resync {
            let old = w.parties[by].group.take().unwrap();
            let name = w.parties[by].name.clone();
            w.ghosts.push(Ghost { name, party: by as u32, group: old, saw_removal: false, removed_at_epoch: pre_epoch });
        }
        for &p in &members {
            if p == by {
                continue;
            }
            ctx.eval();
            match w.process(p, &msg) {
                Ok(ReceivedMessage::Commit(d)) => {
                    if !d.is_external {
                        ctx.violation_for("C01", "external-commit-not-flagged", "external commit reported with is_external = false");
                    }
                    ctx.outcome("recv-external-commit:ok");
                }
                Ok(_) => ctx.violation_for("C01", "commit-reported-as-other-kind", "external commit reported as another kind"),
                Err(e) => {
                    let sig = format!("receiver-rejects-external-commit|{}", err_name(&e));
                    ctx.violation_for("C01", sig.clone(), format!("{} rejects the external commit of {}: {e:?}", w.parties[p].name, w.parties[by].name));
                    ctx.violation_for("C07", sig, "external commit rejected");
                    return Step::Stop;
                }
            }
            if w.g(p).current_epoch() != pre_epoch + 1 {
                ctx.violation_for("C01", "epoch-not-plus-one", "external commit did not advance the epoch by one");
            }
        }
        if !w.cfg.keep_stale_store {
            let gid = new_group.group_id().to_vec();
            stores::peek(by as u32, |st| {
                st.groups.remove(&gid);
            });
        }
        w.parties[by].group = Some(new_group);
        s.joiners.insert(by);
        s.pending_adds.clear();
        ctx.goal("external-commit");
        self.after_epoch_change(w, "external-commit", Some(by), &prev_tree_bytes, true, ctx);
        self.ghost_check(w, &[("round-commit".into(), msg.clone()), ("group-info".into(), gi)], &[], &[by], ctx);
        if self.mon.external {
            super::c16::on_commit(s, &msg, false, ctx);
        }
        Step::Continue
    }

    fn apply_act(&self, s: &mut HState, a: &Act, ctx: &mut Ctx) -> Step {
        let step = match a {
            Act::Commit { by, spec } => self.do_commit(s, *by, spec, Dev::None, ctx),
            Act::Raced { by, spec, loser, loser_adds } => self.do_commit(s, *by, spec, Dev::Race { loser: *loser, adds: *loser_adds }, ctx),
            Act::Echoed { by, spec } => self.do_commit(s, *by, spec, Dev::Echo, ctx),
            Act::Propose { by, prop } => self.do_propose(s, *by, Some(prop), ctx),
            Act::ProposeUpdate { by } => self.do_propose(s, *by, None, ctx),
            Act::External { by, resync } => self.do_external(s, *by, *resync, ctx),
            Act::ExternalPropose { remove } => match super::c16::external_proposal(s, *remove, ctx) {
                Some(_) => Step::Continue,
                None => Step::Stop,
            },
            Act::NewMemberPropose => match super::c16::new_member_proposal(s, ctx) {
                Some(_) => Step::Continue,
                None => Step::Stop,
            },
        };
        if self.mon.reject && matches!(step, Step::Continue) {
            super::c04::probe(s, ctx);
        }
        step
    }
}

impl Model for HistoryModel {
    type S = HState;
    type A = Act;

    fn seeds(&self, ctx: &mut Ctx) -> Vec<(String, HState)> {
        let mut out = vec![];
        for cfg in &self.cfgs {
            out.extend(self.gallery(cfg, ctx));
        }
        out
    }

    fn depth(&self, seed_idx: usize) -> usize {
        let per_cfg = if self.seeds.is_empty() { GALLERY_SIZE } else { self.seeds.len() };
        let first_is_s0 = self.seeds.is_empty() || self.seeds[0] == "S0";
        if seed_idx % per_cfg == 0 && first_is_s0 {
            self.depth_initial
        } else {
            self.depth_gallery
        }
    }

    fn actions(&self, s: &HState, depth: usize) -> Vec<Act> {
        use Prop::*;
        let w = &s.w;
        let members = w.members();
        let outs = w.outsiders();
        let (o1, o2) = (outs.first().copied(), outs.get(1).copied());
        let mut v = vec![];
        let full = self.alphabet == Alphabet::Full;
        for &by in &members {
            let others: Vec<usize> = members.iter().copied().filter(|m| *m != by).collect();
            let mut specs: Vec<Vec<Prop>> = vec![vec![]];
            if let Some(o) = o1 {
                specs.push(vec![Add(o)]);
                if let Some(o2) = o2 {
                    specs.push(vec![Add(o), Add(o2)]);
                }
            }
            for &x in &others {
                specs.push(vec![Remove(x)]);
            }
            if let (Some(o), Some(&x)) = (o1, others.first()) {
                specs.push(vec![Remove(x), Add(o)]);
            }
            if others.len() >= 2 {
                specs.push(vec![Remove(others[0]), Remove(*others.last().unwrap())]);
            }
            if full {
                specs.push(vec![ExternalPsk(0)]);
                specs.push(vec![ResumptionPsk(w.g(by).current_epoch())]);
                specs.push(vec![Gce(depth as u8 + 1)]);
                specs.push(vec![Custom(1)]);
                if self.mon.external {
                    // the observer must follow a re-init commit too (the group is frozen afterwards)
                    specs.push(vec![ReInit]);
                }
            }
            for props in specs {
                if s.deviations < self.max_deviations {
                    // the loser is the next member in index order; it races with and without an Add
                    if let Some(&loser) = others.iter().find(|m| **m > by).or(others.first()) {
                        v.push(Act::Raced { by, spec: commit_spec(props.clone()), loser, loser_adds: false });
                        if o1.is_some() {
                            v.push(Act::Raced { by, spec: commit_spec(props.clone()), loser, loser_adds: true });
                        }
                    }
                    v.push(Act::Echoed { by, spec: commit_spec(props.clone()) });
                }
                v.push(Act::Commit { by, spec: commit_spec(props) });
            }
            if full {
                v.push(Act::Commit { by, spec: CommitSpec { props: vec![], rekey: true, aad: vec![1, 2, 3] } });
            }
        }
        // by-reference proposals
        let proposers: Vec<usize> = if self.all_proposers || members.len() <= 2 {
            members.clone()
        } else {
            vec![members[0], *members.last().unwrap()]
        };
        for &by in &proposers {
            let others: Vec<usize> = members.iter().copied().filter(|m| *m != by).collect();
            if let Some(o) = o1 {
                if !s.pending_adds.iter().any(|(x, _)| *x == o) {
                    v.push(Act::Propose { by, prop: Add(o) });
                }
            }
            if let Some(&x) = others.first() {
                v.push(Act::Propose { by, prop: Remove(x) });
            }
            if others.len() > 1 {
                v.push(Act::Propose { by, prop: Remove(*others.last().unwrap()) });
            }
            v.push(Act::ProposeUpdate { by });
            if full {
                v.push(Act::Propose { by, prop: ExternalPsk(0) });
                v.push(Act::Propose { by, prop: Gce(depth as u8 + 0x10) });
                v.push(Act::Propose { by, prop: Custom(2) });
            }
        }
        // external commits
        if members.len() >= 1 {
            if let Some(o) = o1 {
                v.push(Act::External { by: o, resync: false });
            }
            if members.len() >= 2 {
                v.push(Act::External { by: *members.last().unwrap(), resync: true });
            }
        }
        if self.mon.external && members.len() >= 2 && !s.obs.observers.is_empty() {
            v.push(Act::ExternalPropose { remove: true });
            if o1.is_some() && !s.pending_adds.iter().any(|(x, _)| Some(*x) == o1) {
                v.push(Act::ExternalPropose { remove: false });
            }
        }
        if self.mon.external && !members.is_empty() && o1.is_some() && !s.pending_adds.iter().any(|(x, _)| Some(*x) == o1) {
            v.push(Act::NewMemberPropose);
        }
        v
    }

    fn step(&self, s: &mut HState, a: &Act, ctx: &mut Ctx) -> Step {
        let table = std::mem::take(&mut s.w.stores);
        stores::install(table);
        let r = std::panic::catch_unwind(std::panic::AssertUnwindSafe(|| self.apply_act(s, a, ctx)));
        s.w.stores = stores::uninstall();
        match r {
            Ok(step) => {
                s.w.trail.push(format!("{a:?}"));
                ctx.shape(world_shape(&s.w));
                step
            }
            Err(_) => {
                let _ = log_take();
                let (loc, msg, lib) = take_panic();
                if lib {
                    ctx.violation(format!("panic|{loc}"), format!("library panicked during {a:?}: {msg}"));
                    Step::Stop
                } else {
                    crate::engine::machinery(&format!("harness panic at {loc}: {msg}"))
                }
            }
        }
    }
}
