//! C20: tree index arithmetic equals the RFC 9420 Appendix C definitions, exhaustively for all
//! full trees up to 2^12 leaves (every node index in and just outside the tree, all leaf pairs
//! for the common-ancestor level), against the recursive reference in `reference::treemath`.

use mls_rs::group::verif_hooks::math::{leaf_lca_level, subtree_leaf_range, BfsIterTopDown, TreeIndex};
use mls_rs::group::{LeafIndex, Node, NodeVec};
use serde_json::json;

use super::{bounds_json, Meta};
use crate::engine::Ctx;
use crate::reference::treemath as tm;

fn check_size(n: u32, all_pairs_limit: u32, ctx: &mut Ctx) {
    let width = tm::node_width(n);
    let root = tm::root(n);
    ctx.eval();
    if TreeIndex::root(&n) != root {
        ctx.violation("root", format!("root of {n} leaves: {} != {root}", TreeIndex::root(&n)));
    }
    // BFS order
    let bfs: Vec<u32> = BfsIterTopDown::new(n as usize).map(|x| x as u32).collect();
    ctx.eval();
    if bfs != tm::bfs_top_down(n) {
        ctx.violation("bfs-order", format!("BfsIterTopDown differs from the level order for {n} leaves"));
    }
    for x in 0..width + 8 {
        let in_tree = x < width;
        ctx.eval();
        if x.is_in_tree(&root) != in_tree {
            ctx.violation("is_in_tree", format!("is_in_tree({x}) wrong for {n} leaves"));
        }
        // copath / direct path (guarded entry point: empty outside the tree)
        let cp = x.direct_copath(&n);
        let got: Vec<(u32, u32)> = cp.iter().map(|c| (c.path, c.copath)).collect();
        let want: Vec<(u32, u32)> = if in_tree { tm::direct_path(x, n).into_iter().zip(tm::copath(x, n)).collect() } else { vec![] };
        ctx.eval();
        if got != want {
            ctx.violation(if in_tree { "direct_copath" } else { "direct_copath-out-of-tree" }, format!("direct_copath({x}) for {n} leaves: {got:?} != {want:?}"));
        }
        if !in_tree {
            ctx.outcome("out-of-tree:empty-path");
            continue;
        }
        // children
        ctx.eval();
        if x.left() != tm::left(x) || x.right() != tm::right(x) {
            ctx.violation("children", format!("children of {x}: ({:?},{:?}) != ({:?},{:?})", x.left(), x.right(), tm::left(x), tm::right(x)));
        }
        if x.is_leaf() != (x % 2 == 0) {
            ctx.violation("is_leaf", format!("is_leaf({x})"));
        }
        // parent / sibling
        let ps = x.parent_sibling(&n);
        ctx.eval();
        match (ps, tm::parent(x, n), tm::sibling(x, n)) {
            (None, None, None) => ctx.outcome("parent:none(root)"),
            (Some(ps), Some(p), Some(s)) if ps.parent == p && ps.sibling == s => ctx.outcome("parent:ok"),
            (got, p, s) => ctx.violation("parent_sibling", format!("parent_sibling({x}) for {n} leaves: {got:?} != ({p:?},{s:?})")),
        }
        // subtree leaf range
        ctx.eval();
        if subtree_leaf_range(x) != tm::leaf_range(x) {
            ctx.violation("subtree", format!("subtree({x}): {:?} != {:?}", subtree_leaf_range(x), tm::leaf_range(x)));
        }
    }
    // common ancestor level
    if n <= all_pairs_limit {
        for a in 0..n {
            for b in 0..n {
                ctx.eval();
                let want = if a == b { 0 } else { tm::common_ancestor_level(a, b, n) };
                if leaf_lca_level(a, b) != want {
                    ctx.violation("leaf_lca_level", format!("leaf_lca_level({a},{b}) = {} != {want}", leaf_lca_level(a, b)));
                }
                // on node indices of the leaves the result is one more (one extra halving)
                let want2 = if a == b { 0 } else { want + 1 };
                if leaf_lca_level(2 * a, 2 * b) != want2 {
                    ctx.violation("leaf_lca_level-node-indices", format!("leaf_lca_level({},{}) != {want2}", 2 * a, 2 * b));
                }
            }
        }
        ctx.outcome("lca:all-pairs");
    } else {
        // boundary pairs
        for (a, b) in [(0, n - 1), (0, 1), (n / 2 - 1, n / 2), (n - 2, n - 1), (0, n / 2), (n / 4, n / 4 + 1)] {
            ctx.eval();
            if leaf_lca_level(a, b) != tm::common_ancestor_level(a, b, n) {
                ctx.violation("leaf_lca_level", format!("leaf_lca_level({a},{b}) for {n} leaves"));
            }
        }
        ctx.outcome("lca:boundary-pairs");
    }
    ctx.extra("states", 1);
    ctx.report.transitions += (width + 8) as u64;
}

/// Large sizes: spines and level boundaries exhaustively (deterministic), interior nodes sampled.
fn check_large(k: u32, ctx: &mut Ctx) {
    let n: u32 = 1 << k;
    let width = tm::node_width(n);
    let root = tm::root(n);
    let mut nodes: Vec<u32> = vec![0, 1, 2, width - 1, width - 2, width - 3, root, root - 1, root + 1];
    for lvl in 0..=k {
        let first = (1u32 << lvl) - 1;
        let step = 1u32 << (lvl + 1);
        nodes.push(first);
        if let Some(second) = first.checked_add(step) {
            if second < width {
                nodes.push(second);
            }
        }
        // last node of the level
        let count = (width - first + step - 1) / step;
        nodes.push(first + (count - 1) * step);
    }
    // sampled interior nodes (reported as sampling)
    let mut seed = ctx.seed.wrapping_mul(6364136223846793005).wrapping_add(k as u64 + 1442695040888963407);
    for _ in 0..2000 {
        seed = seed.wrapping_mul(6364136223846793005).wrapping_add(1442695040888963407);
        nodes.push(((seed >> 33) as u32) % width);
        ctx.extra("sampled_nodes", 1);
    }
    for x in nodes {
        ctx.eval();
        let got: Vec<(u32, u32)> = x.direct_copath(&n).iter().map(|c| (c.path, c.copath)).collect();
        let want: Vec<(u32, u32)> = tm::direct_path(x, n).into_iter().zip(tm::copath(x, n)).collect();
        if got != want {
            ctx.violation("direct_copath-large", format!("direct_copath({x}) for 2^{k} leaves differs"));
        }
        if x.left() != tm::left(x) || x.right() != tm::right(x) || subtree_leaf_range(x) != tm::leaf_range(x) || !x.is_in_tree(&root) {
            ctx.violation("node-math-large", format!("children/subtree/is_in_tree of {x} for 2^{k} leaves"));
        }
    }
    for x in [width, width + 1, width + 7] {
        ctx.eval();
        if x.is_in_tree(&root) || !x.direct_copath(&n).is_empty() {
            ctx.violation("out-of-tree-large", format!("{x} reported inside a tree of 2^{k} leaves"));
        }
    }
    ctx.outcome("large:spines+sampled");
    ctx.extra("states", 1);
}

fn misc(ctx: &mut Ctx) {
    // LeafIndex::try_from around the 2^24 - 1 limit
    for v in [0u32, 1, (1 << 24) - 2, (1 << 24) - 1, 1 << 24, (1 << 24) + 1, u32::MAX] {
        ctx.eval();
        let ok = LeafIndex::try_from(v).is_ok();
        if ok != (v <= (1 << 24) - 1) {
            ctx.violation("LeafIndex::try_from", format!("LeafIndex::try_from({v}) accepted = {ok}"));
        }
    }
    ctx.outcome("leaf-index-limit");
    // NodeVec::total_leaf_count and borrow_node for every length 1..=8193
    let mut v: Vec<Option<Node>> = Vec::new();
    for len in 1..=8193usize {
        v.push(None);
        if len % 2 == 0 {
            continue; // node arrays have odd length
        }
        let nv = NodeVec::from(v.clone());
        let leaves = (len as u32) / 2 + 1;
        let want = leaves.next_power_of_two();
        ctx.eval();
        if nv.total_leaf_count() != want {
            ctx.violation("total_leaf_count", format!("NodeVec of {len} nodes: total_leaf_count {} != {want}", nv.total_leaf_count()));
        }
        // indices within the full width are readable (as blank), beyond are errors
        let full = tm::node_width(want);
        for x in [0, len as u32 - 1, len as u32, full - 1] {
            if x < full && nv.borrow_node(x).is_err() {
                ctx.violation("borrow_node-in-tree", format!("NodeVec of {len} nodes: node {x} inside the full tree is refused"));
            }
        }
        for x in [full.max((len as u32).next_power_of_two()), full + 1, u32::MAX] {
            ctx.eval();
            // mls-rs bounds by the next power of two of the array length
            if x as usize >= len.next_power_of_two() && nv.borrow_node(x).is_ok() {
                ctx.violation("borrow_node-out-of-tree", format!("NodeVec of {len} nodes: node {x} outside the tree is readable"));
            }
        }
    }
    ctx.outcome("nodevec-lengths");
}

pub fn meta(_tier: &str) -> Meta {
    Meta {
        level: "model_checking",
        rule: "for every full tree with 2^0..2^12 leaves: every node index 0..width+8 (root, children, parent, sibling, direct path + copath, subtree leaf range, is_in_tree, BFS order) and every ordered leaf pair (all pairs up to 2^10 leaves in quick, 2^12 in thorough) compared with the recursive RFC 9420 Appendix C definitions; LeafIndex::try_from around 2^24-1; NodeVec::total_leaf_count / borrow_node for every array length 1..8193; sizes 2^13..2^24: spines and level boundaries exhaustively plus 2000 nodes drawn with VERIF_SEED per size (that part is sampling and reported as such); states = tree sizes, transitions = node indices judged".into(),
        assumptions: vec![
            "the reference is the recursive definition (parent by descent from the root), written independently of mls-rs's bit arithmetic".into(),
            "parent_sibling / left_unchecked are documented as unchecked helpers and are compared on in-tree indices only; out-of-tree behaviour is asked of the guarded entry points (direct_copath, is_in_tree, left/right, NodeVec::borrow_node, LeafIndex::try_from)".into(),
        ],
        bounds: bounds_json(&[("exhaustive_leaf_counts", json!("2^0..2^12")), ("sampled_leaf_counts", json!("2^13..2^24"))]),
        required_goals: vec![],
        min_outcomes: 5,
        workers: 14,
    }
}

pub fn run(ctx: &mut Ctx) {
    let pairs_limit = if ctx.quick() { 1 << 10 } else { 1 << 12 };
    let mut item = 0;
    // biggest first for balance
    let guarded = |ctx: &mut Ctx, what: String, f: &dyn Fn(&mut Ctx)| {
        let r = std::panic::catch_unwind(std::panic::AssertUnwindSafe(|| f(ctx)));
        if r.is_err() {
            let (loc, msg, lib) = crate::engine::take_panic();
            if lib {
                ctx.violation(format!("panic|{loc}"), format!("tree math panicked for {what}: {msg}"));
            } else {
                crate::engine::machinery(&format!("harness panic at {loc}: {msg}"));
            }
        }
        ctx.report.traces += 1;
    };
    for k in (0..=12u32).rev() {
        if ctx.mine(item) {
            guarded(ctx, format!("2^{k} leaves"), &|ctx| check_size(1 << k, pairs_limit, ctx));
        }
        item += 1;
    }
    for k in 13..=24u32 {
        if ctx.mine(item) {
            guarded(ctx, format!("2^{k} leaves"), &|ctx| check_large(k, ctx));
        }
        item += 1;
    }
    if ctx.mine(item) {
        misc(ctx);
    }
    if ctx.shard.0 == 0 {
        ctx.sample(json!({"leaves": 8, "node": 5, "expect": {"parent": tm::parent(5, 8), "sibling": tm::sibling(5, 8), "copath": tm::copath(5, 8), "leaf_range": [tm::leaf_range(5).0, tm::leaf_range(5).1]}}));
        ctx.sample(json!({"leaves": 4096, "node": 4095, "expect": {"is_root": tm::root(4096) == 4095}}));
    }
}

pub fn replay(_ctx: &mut Ctx, _path: &[usize]) {
    println!("C20 is a pure enumeration: rerun `bin/check C20 quick`");
}
