//! C06: a group restored from storage is the same group, at every crash point.
//!
//! Target member B (party 1) persists through a *tee* store: every GroupStateStorage call goes
//! to the shipped in-memory store, the shipped SQLite store (in-memory connection) and the
//! reference store model; all reads are compared three ways, and either shipped store can be
//! the one whose answers mls-rs sees. The shipped stores share state through `Arc`, so this
//! check explores by replaying prefixes: a case = (history, set of positions at which B calls
//! write_to_storage, reload point, retention, primary store) and is run from scratch.
//!
//! Oracles: (1) right after every write, `load_group` yields B's complete state (hook H1);
//! (2) a crash at the end of the history (any number of unwritten operations after the last
//! write) loads exactly the state as of the last write; (3) lockstep: a copy reloaded at the
//! reload point receives every later message B receives and must stay state-equal until B's
//! first own operation that draws fresh randomness, whose twin version must then be accepted by
//! the peers; (4) after every write all reads (state, every epoch up to the current one,
//! max_epoch_id) agree between the three stores.

use mls_rs::MlsMessage;
use serde_json::json;

use super::{bounds_json, default_assumptions, Meta};
use crate::engine::{take_panic, Ctx};
use crate::stateq::{diff, diff_classes, effective, Eff};
use crate::stores;
use crate::world::*;

const B: usize = 1;

#[derive(Clone, Copy, Debug, PartialEq, Eq)]
pub enum Op {
    PeerCommitEmpty,
    PeerCommitAdd,
    PeerCommitRemove,
    PeerSend,
    /// A sends two messages, B processes only the second (a skipped key stays outstanding)
    PeerSendSkip,
    PeerPropose,
    OwnPropose,
    /// B proposes new group context extensions (kept in its own-proposal cache)
    OwnProposeGce,
    OwnCommitPending,
    OwnCommitApply,
    /// an application message A sent in an earlier epoch reaches B now
    LateMsg,
}

const OPS: [Op; 11] = [Op::PeerCommitEmpty, Op::PeerCommitAdd, Op::PeerCommitRemove, Op::PeerSend, Op::PeerSendSkip, Op::PeerPropose, Op::OwnPropose, Op::OwnProposeGce, Op::OwnCommitPending, Op::OwnCommitApply, Op::LateMsg];

#[derive(Clone, Debug)]
pub struct Case {
    pub history: Vec<Op>,
    /// bit i set: B writes after operation i
    pub writes: u32,
    /// index (into the history) of the write after which a reloaded twin starts; None = no twin
    pub reload_at: Option<usize>,
    pub retention: usize,
    pub primary: u8,
}

const IGNORE: [&str; 1] = ["pending_key_package_removal"];
const OTHER_GROUP: &[u8] = b"verif-group-other";

struct Run<'a> {
    w: World,
    late: Vec<MlsMessage>,
    twin: Option<G>,
    last_written: Option<Eff>,
    ctx: &'a mut Ctx,
    label: String,
    wrote_since_twin: bool,
    /// readable epoch records of the bystander group at the last sweep
    other_kept: Option<usize>,
}

impl<'a> Run<'a> {
    fn sig(&mut self, sig: String, detail: String) {
        let l = self.label.clone();
        self.ctx.violation(sig, format!("{detail} [case {l}]"));
    }

    /// every message B receives is also given to the reloaded twin, which must stay equal
    fn b_receives(&mut self, m: &MlsMessage, what: &str) -> bool {
        let r = self.w.process(B, m);
        let ok = r.is_ok();
        if let Some(mut t) = self.twin.take() {
            let rt = t.process_incoming_message_with_time(m.clone(), time(self.w.clock));
            self.ctx.eval();
            if what == "late-application" && self.wrote_since_twin && !ok && rt.is_ok() {
                // the copy shares B's store and never writes: every epoch it entered since the
                // reload is still un-flushed in memory, while B's writes have trimmed the store to
                // the retention limit. Retaining more than B is what the retention rule (C19)
                // prescribes for a member that has not written.
                self.ctx.outcome("lockstep:unwritten-copy-still-retains-the-epoch(expected)");
                self.twin = Some(t);
            } else if rt.is_ok() != ok {
                self.sig(format!("lockstep-acceptance-differs|{what}"), format!("B and its reloaded copy disagree on accepting a {what}: original ok={ok}, reloaded ok={}", rt.is_ok()));
            } else if ok {
                let a = effective(self.w.g(B), B as u32);
                let b = effective(&t, B as u32);
                // the reloaded copy cannot write (it shares B's store): once B has written again,
                // what is "pending" and which old records are still stored legitimately differ
                let mut d = diff(&a, &b, &IGNORE);
                let wst = self.wrote_since_twin;
                d.retain(|x| x != "pending_epoch_inserts" && !(wst && x.starts_with("epoch_record")));
                if !d.is_empty() {
                    self.sig(format!("lockstep-state-differs|{what}|{}", diff_classes(&d)), format!("after a {what} the reloaded copy differs from the never-reloaded member in {d:?}"));
                } else {
                    self.ctx.outcome(format!("lockstep-equal:{what}"));
                    self.twin = Some(t);
                }
            } else {
                self.twin = Some(t);
            }
        }
        ok
    }

    /// B is about to act with fresh randomness: the twin does the same kind of thing on the side
    /// and a peer must accept it; state equality ends here.
    fn twin_acts(&mut self, kind: &str, act: &dyn Fn(&mut G) -> Option<MlsMessage>) {
        if let Some(mut t) = self.twin.take() {
            self.ctx.eval();
            let msg = stores::with_fork(|| act(&mut t));
            match msg {
                Some(m) => {
                    let mut peer = self.w.g(0).clone();
                    match stores::with_fork(|| peer.process_incoming_message_with_time(m, time(self.w.clock))) {
                        Ok(_) => self.ctx.outcome(format!("lockstep-twin-{kind}-accepted")),
                        Err(e) => self.sig(format!("reloaded-copy-{kind}-refused|{}", err_name(&e)), format!("what the reloaded copy sends ({kind}) is refused by a peer: {e:?}")),
                    }
                }
                None => {
                    // the original may fail in the same way (e.g. CommitRequired); compared by the caller
                    self.ctx.outcome(format!("lockstep-twin-{kind}-not-possible"));
                }
            }
        }
    }

    fn step(&mut self, op: Op) -> bool {
        let w = &mut self.w;
        match op {
            Op::PeerCommitEmpty | Op::PeerCommitAdd | Op::PeerCommitRemove => {
                let spec = match op {
                    Op::PeerCommitEmpty => CommitSpec::default(),
                    Op::PeerCommitAdd => match w.outsiders().first() {
                        Some(&o) => CommitSpec { props: vec![Prop::Add(o)], ..Default::default() },
                        None => return false,
                    },
                    _ => match w.members().into_iter().find(|m| *m != 0 && *m != B) {
                        Some(x) => CommitSpec { props: vec![Prop::Remove(x)], ..Default::default() },
                        None => return false,
                    },
                };
                if let Ok(m) = w.send(0, b"kept for later", b"") {
                    self.late.push(m);
                }
                let w = &mut self.w;
                let Ok(built) = w.commit(0, &spec) else { return false };
                let msg = built.out.commit_message.clone();
                for p in w.members() {
                    if p != 0 && p != B && w.process(p, &msg).is_err() {
                        return false;
                    }
                }
                if !self.b_receives(&msg, "commit") {
                    self.sig("honest-commit-refused".into(), "B refuses an honest commit".into());
                    return false;
                }
                let w = &mut self.w;
                let _ = w.apply(0);
                if let Some(Prop::Remove(x)) = spec.props.first() {
                    w.retire(*x, true);
                }
                for (x, _) in &built.added {
                    if let Some(wm) = built.out.welcome_messages.first() {
                        let _ = w.join(*x, wm, None);
                    }
                }
                true
            }
            Op::PeerSend => {
                let Ok(m) = w.send(0, b"hello", b"aad") else { return false };
                self.b_receives(&m, "application")
            }
            Op::PeerSendSkip => {
                let Ok(m1) = w.send(0, b"first (held back)", b"") else { return false };
                let Ok(m2) = w.send(0, b"second", b"") else { return false };
                let _ = m1;
                self.ctx.goal("skipped-key-outstanding");
                self.b_receives(&m2, "application-out-of-order")
            }
            Op::PeerPropose => {
                let Ok(m) = w.gm(0).propose_group_context_extensions(custom_ext(5), vec![]) else { return false };
                for p in w.members() {
                    if p != 0 && p != B {
                        let _ = w.process(p, &m);
                    }
                }
                self.b_receives(&m, "proposal")
            }
            Op::OwnPropose => {
                self.twin_acts("proposal", &|g: &mut G| g.propose_update(vec![]).ok());
                let w = &mut self.w;
                let Ok(m) = w.propose_update(B) else { return false };
                for p in w.members() {
                    if p != B {
                        let _ = w.process(p, &m);
                    }
                }
                self.ctx.goal("own-update-outstanding");
                true
            }
            Op::OwnProposeGce => {
                self.twin_acts("proposal", &|g: &mut G| g.propose_group_context_extensions(custom_ext(7), vec![]).ok());
                let w = &mut self.w;
                let Ok(m) = w.gm(B).propose_group_context_extensions(custom_ext(7), vec![]) else { return false };
                for p in w.members() {
                    if p != B {
                        let _ = w.process(p, &m);
                    }
                }
                self.ctx.goal("own-gce-proposal-outstanding");
                true
            }
            Op::OwnCommitPending => {
                self.twin_acts("commit", &|g: &mut G| g.commit(vec![]).ok().map(|o| o.commit_message));
                let w = &mut self.w;
                if w.g(B).has_pending_commit() {
                    return false;
                }
                let ok = w.commit(B, &CommitSpec::default()).is_ok();
                if ok {
                    self.ctx.goal("pending-commit-at-write");
                }
                ok
            }
            Op::OwnCommitApply => {
                self.twin_acts("commit", &|g: &mut G| g.commit(vec![]).ok().map(|o| o.commit_message));
                let w = &mut self.w;
                if w.g(B).has_pending_commit() {
                    w.gm(B).clear_pending_commit();
                }
                if let Ok(m) = w.send(0, b"kept for later", b"") {
                    self.late.push(m);
                }
                let w = &mut self.w;
                let Ok(built) = w.commit(B, &CommitSpec::default()) else { return false };
                for p in w.members() {
                    if p != B && w.process(p, &built.out.commit_message).is_err() {
                        return false;
                    }
                }
                w.apply(B).is_ok()
            }
            Op::LateMsg => {
                if self.late.is_empty() {
                    return false;
                }
                let m = self.late.remove(0);
                if m.epoch() == Some(self.w.g(B).current_epoch()) {
                    return self.b_receives(&m, "application");
                }
                self.ctx.goal("late-message-of-prior-epoch");
                // may legitimately be refused when the epoch is no longer retained
                let _ = self.b_receives(&m, "late-application");
                true
            }
        }
    }

    fn read_sweep(&mut self) {
        let gid = self.w.group_id.clone();
        let e = self.w.g(B).current_epoch();
        let store = stores::GsStore(B as u32);
        use mls_rs::GroupStateStorage;
        let _ = store.state(&gid);
        let _ = store.max_epoch_id(&gid);
        for i in 0..=e {
            let _ = store.epoch(&gid, i);
        }
        // the bystander group's records are as they were written (3-way compared like the rest)
        let _ = store.state(OTHER_GROUP);
        let _ = store.max_epoch_id(OTHER_GROUP);
        let mut kept = 0;
        for i in 0..=4u64 {
            if let Ok(Some(_)) = store.epoch(OTHER_GROUP, i) {
                kept += 1;
            }
        }
        if self.other_kept.map(|k| k != kept).unwrap_or(false) {
            self.sig("bystander-group-records-changed".into(), format!("the stored epoch records of another group in the same storage went from {:?} to {kept} although nothing touched that group", self.other_kept));
        }
        self.other_kept = Some(kept);
        for l in stores::tee_take_log() {
            let kind = l.split(':').next().unwrap_or("").split('(').next().unwrap_or("").to_string();
            self.sig(format!("stores-disagree|{kind}"), format!("in-memory store, SQLite store and reference model disagree: {l}"));
        }
    }

    fn write(&mut self, pos: usize, make_twin: bool) -> bool {
        if let Err(e) = self.w.gm(B).write_to_storage() {
            self.sig(format!("write-failed|{}", err_name(&e)), format!("write_to_storage after operation {pos} failed: {e:?}"));
            return false;
        }
        self.ctx.eval();
        let now = effective(self.w.g(B), B as u32);
        // (1) load right away
        let gid = self.w.group_id.clone();
        match self.w.parties[B].client.load_group(&gid) {
            Ok(g) => {
                let l = effective(&g, B as u32);
                let d = diff(&now, &l, &IGNORE);
                if !d.is_empty() {
                    self.sig(format!("loaded-differs-from-saved|{}", diff_classes(&d)), format!("load_group right after write_to_storage (after operation {pos}) differs from the saved member in {d:?}"));
                } else {
                    self.ctx.outcome("load-after-write:equal");
                }
                if make_twin {
                    self.twin = Some(g);
                    self.wrote_since_twin = false;
                } else {
                    self.wrote_since_twin = true;
                }
            }
            Err(e) => self.sig(format!("load-after-write-failed|{}", err_name(&e)), format!("load_group right after write_to_storage (after operation {pos}) failed: {e:?}")),
        }
        self.last_written = Some(now);
        self.read_sweep();
        true
    }
}

pub fn run_case(c: &Case, ctx: &mut Ctx) {
    let cfg = WorldCfg { retention: c.retention, ..Default::default() };
    let mut w = World::new(cfg, 5);
    stores::tee_clear();
    stores::tee_install(B as u32, c.retention, c.primary);
    let label = format!("{:?} writes={:#b} reload_at={:?} R={} primary={}", c.history, c.writes, c.reload_at, c.retention, if c.primary == 0 { "in-memory" } else { "sqlite" });
    ctx.cur_trail = vec![label.clone()];
    let table = std::mem::take(&mut w.stores);
    stores::install(table);
    let r = std::panic::catch_unwind(std::panic::AssertUnwindSafe(|| {
        let setup = (|| {
            w.create(0)?;
            let b = w.commit(0, &CommitSpec { props: vec![Prop::Add(1), Prop::Add(2)], ..Default::default() })?;
            w.apply(0)?;
            for p in [1, 2] {
                w.join(p, &b.out.welcome_messages[0], None)?;
            }
            // B keeps a second, unrelated group in the same storage: four written epochs that
            // nothing in the case touches again
            let mut other = w.parties[B].client.create_group_with_id(OTHER_GROUP.to_vec(), Default::default(), Default::default(), w.now())?;
            for _ in 0..3 {
                other.commit(vec![])?;
                other.apply_pending_commit()?;
                other.write_to_storage()?;
            }
            Ok::<(), mls_rs::error::MlsError>(())
        })();
        if setup.is_err() {
            crate::engine::machinery("C06 setup failed");
        }
        let mut run = Run { w, late: vec![], twin: None, last_written: None, ctx, label: label.clone(), wrote_since_twin: false, other_kept: None };
        run.read_sweep();
        for (i, op) in c.history.iter().enumerate() {
            if !run.step(*op) {
                run.ctx.outcome(format!("history-not-applicable-at:{op:?}"));
                return;
            }
            run.ctx.report.transitions += 1;
            if c.writes & (1 << i) != 0 && !run.write(i, c.reload_at == Some(i)) {
                return;
            }
        }
        // (2) crash now: whatever happened after the last write is lost, nothing else
        if let Some(saved) = run.last_written.clone() {
            let gid = run.w.group_id.clone();
            run.ctx.eval();
            match run.w.parties[B].client.load_group(&gid) {
                Ok(g) => {
                    let l = effective(&g, B as u32);
                    // stored epoch records are shared with the live member: compare the member parts
                    let mut d = diff(&saved, &l, &IGNORE);
                    d.retain(|x| !x.starts_with("epoch_record"));
                    if !d.is_empty() {
                        run.sig(format!("crash-load-differs-from-last-write|{}", diff_classes(&d)), format!("after a crash the loaded group differs from the state at the last write in {d:?}"));
                    } else {
                        run.ctx.outcome("crash-load:equals-last-write");
                    }
                }
                Err(e) => run.sig(format!("crash-load-failed|{}", err_name(&e)), format!("load_group after a crash failed: {e:?}")),
            }
        }
        run.read_sweep();
        run.ctx.report.traces += 1;
    }));
    let _ = stores::uninstall();
    stores::tee_clear();
    if r.is_err() {
        let (loc, msg, lib) = take_panic();
        if lib {
            ctx.violation(format!("panic|{loc}"), format!("library panicked: {msg} [case {label}]"));
        } else {
            crate::engine::machinery(&format!("harness panic at {loc}: {msg}"));
        }
    }
}

pub fn cases(tier: &str) -> Vec<Case> {
    let quick = tier == "quick";
    let depth = if quick { 3 } else { 4 };
    let retentions: Vec<usize> = if quick { vec![1, 3] } else { vec![1, 2, 3] };
    let mut hist: Vec<Vec<Op>> = vec![vec![]];
    let mut all: Vec<Vec<Op>> = vec![];
    for _ in 0..depth {
        let mut next = vec![];
        for h in &hist {
            for op in OPS {
                // a late message needs an earlier commit; pending commit twice is refused
                if op == Op::LateMsg && !h.iter().any(|o| matches!(o, Op::PeerCommitEmpty | Op::PeerCommitAdd | Op::PeerCommitRemove | Op::OwnCommitApply)) {
                    continue;
                }
                if op == Op::OwnCommitPending && h.contains(&Op::OwnCommitPending) {
                    continue;
                }
                let mut n = h.clone();
                n.push(op);
                next.push(n);
            }
        }
        all.extend(next.clone());
        hist = next;
    }
    let mut out = vec![];
    for h in all {
        let n = h.len();
        // only patterns that write after the last operation or leave a tail: all non-empty subsets
        for writes in 1u32..(1 << n) {
            let positions: Vec<usize> = (0..n).filter(|i| writes & (1 << i) != 0).collect();
            let mut reloads: Vec<Option<usize>> = vec![None];
            // a twin only makes sense if something follows the write
            reloads.extend(positions.iter().filter(|p| **p + 1 < n).map(|p| Some(*p)));
            for reload_at in reloads {
                for &retention in &retentions {
                    for primary in [0u8, 1] {
                        if quick && primary == 1 && retention != 1 && reload_at.is_some() {
                            continue;
                        }
                        out.push(Case { history: h.clone(), writes, reload_at, retention, primary });
                    }
                }
            }
        }
    }
    out
}

pub fn meta(tier: &str) -> Meta {
    let n = cases(tier).len();
    Meta {
        level: "fault_enumeration",
        rule: "every history over 11 operations of the target member (peer commit empty/add/remove, in-order and out-of-order application message, peer proposal, own update proposal, own group-context-extensions proposal, own commit left pending, own commit applied, late message of a prior epoch) up to the depth bound x every non-empty set of positions at which write_to_storage is called x every reload point x retention x which shipped store answers, while the target member keeps a second, untouched group with four written epochs in the same storage (its records must stay as written in all three stores); each case is executed from scratch on the real implementation with the tee store (in-memory + SQLite + model); crash point = end of the history, i.e. after any number of unwritten operations following the last write (every prefix is itself a case); a case is non-trivial when its history is applicable".into(),
        assumptions: {
            let mut a = default_assumptions();
            a.push("crash points lie between GroupStateStorage calls; atomicity of one write inside SQLite / the in-memory mutex is assumed".into());
            a.push("SQLite runs on an in-memory connection (same SQL, no file I/O)".into());
            a
        },
        bounds: bounds_json(&[("depth", json!(if tier == "quick" { 3 } else { 4 })), ("cases", json!(n)), ("retention", json!(if tier == "quick" { "1,3" } else { "1,2,3" }))]),
        required_goals: vec!["skipped-key-outstanding", "own-update-outstanding", "pending-commit-at-write", "late-message-of-prior-epoch"],
        min_outcomes: 5,
        workers: 16,
    }
}

pub fn run(ctx: &mut Ctx) {
    let cs = cases(&ctx.tier.clone());
    for (i, c) in cs.iter().enumerate() {
        if !ctx.mine(i) {
            continue;
        }
        if ctx.over_cap() {
            break;
        }
        ctx.path = vec![i];
        run_case(c, ctx);
        ctx.extra("states", 1);
        if i % 997 == 0 {
            ctx.sample(json!({"history": format!("{:?}", c.history), "writes_after_ops": (0..c.history.len()).filter(|k| c.writes & (1 << k) != 0).collect::<Vec<_>>(), "reload_at": c.reload_at, "retention": c.retention, "primary": c.primary}));
        }
    }
}

pub fn replay(ctx: &mut Ctx, path: &[usize]) {
    let cs = cases(&ctx.tier.clone());
    // path = [model_idx(0), case index]
    let idx = *path.last().unwrap_or(&0);
    let Some(c) = cs.get(idx) else { crate::engine::machinery("no such case") };
    println!("case {idx}: {c:?}");
    run_case(c, ctx);
}
