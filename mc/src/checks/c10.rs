//! C10: committer-side and receiver-side proposal validation agree.
//!
//! Case = (seed tree, committer, set of <= 3 cached by-reference proposal atoms, one by-value
//! atom). The atoms are sent by real members, delivered to everybody (one receiver gets them in
//! reverse order, a fork of another one misses the first), then the committer commits.
//! Oracles: a commit the library lets an honest member build is accepted by every member that
//! saw the proposals, with the same applied set, unused set and epoch state; a member missing a
//! referenced proposal refuses and is unchanged; atoms the RFC 9420 rules make invalid are
//! never applied (by reference) and make the build fail (by value); valid atoms without a
//! conflicting partner are applied.

use std::collections::BTreeMap;

use mls_rs::group::proposal::Proposal;
use mls_rs::group::{CommitEffect, CommitMessageDescription, ReceivedMessage};
use mls_rs::MlsMessage;
use serde_json::json;

use super::{bounds_json, default_assumptions, Meta};
use crate::engine::{take_panic, Ctx};
use crate::oracles::ledger_entry;
use crate::stateq::{diff, diff_classes, effective};
use crate::stores;
use crate::world::*;

#[derive(Clone, Copy, Debug, PartialEq, Eq, PartialOrd, Ord)]
pub enum Atom {
    AddNew,
    AddExisting,
    AddExpired,
    /// a second expired key package, of another outsider
    AddExpiredOther,
    UpdateByA,
    UpdateByAAgain,
    UpdateByB,
    UpdateByCommitter,
    RemoveX,
    RemoveXBySecondProposer,
    RemoveA,
    RemoveCommitter,
    PskKnown,
    PskKnownAgain,
    Gce1,
    Gce2,
    Custom,
    ReInit,
}

const BY_REF: [Atom; 18] = [
    Atom::AddNew,
    Atom::AddExisting,
    Atom::AddExpired,
    Atom::AddExpiredOther,
    Atom::UpdateByA,
    Atom::UpdateByAAgain,
    Atom::UpdateByB,
    Atom::UpdateByCommitter,
    Atom::RemoveX,
    Atom::RemoveXBySecondProposer,
    Atom::RemoveA,
    Atom::RemoveCommitter,
    Atom::PskKnown,
    Atom::PskKnownAgain,
    Atom::Gce1,
    Atom::Gce2,
    Atom::Custom,
    Atom::ReInit,
];

#[derive(Clone, Copy, Debug, PartialEq, Eq)]
pub enum ByValue {
    None,
    AddNew2,
    RemoveX,
    PskKnown,
    Gce,
    RemoveCommitter,
    PskUnknown,
    AddExisting,
}

const BY_VALUE: [ByValue; 8] = [ByValue::None, ByValue::AddNew2, ByValue::RemoveX, ByValue::PskKnown, ByValue::Gce, ByValue::RemoveCommitter, ByValue::PskUnknown, ByValue::AddExisting];

#[derive(Clone, Debug)]
pub struct Case {
    seed: usize,
    committer: usize,
    by_ref: Vec<Atom>,
    by_value: ByValue,
}

/// Roles in a seed: committer K, proposers A and B (other members), X = removal target.
struct Roles {
    a: usize,
    b: usize,
    x: usize,
}

fn seed_world(seed: usize) -> World {
    let mut w = World::new(WorldCfg::default(), 8);
    for p in 0..8 {
        w.set_psk(p, 0, b"psk-zero-value".to_vec());
    }
    let r = w.run(|w| {
        let round = |w: &mut World, by: usize, spec: CommitSpec| -> Result<(), mls_rs::error::MlsError> {
            let b = w.commit(by, &spec)?;
            for p in w.members() {
                if p != by {
                    w.process(p, &b.out.commit_message)?;
                }
            }
            w.apply(by)?;
            for pr in &spec.props {
                if let Prop::Remove(x) = pr {
                    w.retire(*x, true);
                }
            }
            for (x, _) in &b.added {
                w.join(*x, &b.out.welcome_messages[0], None)?;
            }
            Ok(())
        };
        w.create(0)?;
        round(w, 0, CommitSpec { props: vec![Prop::Add(1), Prop::Add(2), Prop::Add(3), Prop::Add(4)], ..Default::default() })?;
        if seed == 1 {
            // interior blank leaf and filled parents
            round(w, 2, CommitSpec::default())?;
            round(w, 3, CommitSpec { props: vec![Prop::Remove(1)], ..Default::default() })?;
        }
        Ok::<(), mls_rs::error::MlsError>(())
    });
    if !matches!(r, Ok(Ok(()))) {
        crate::engine::machinery("C10 seed could not be built");
    }
    w
}

fn kind_of(p: &Proposal) -> &'static str {
    match p {
        Proposal::Add(_) => "add",
        Proposal::Update(_) => "update",
        Proposal::Remove(_) => "remove",
        Proposal::Psk(_) => "psk",
        Proposal::ReInit(_) => "reinit",
        Proposal::ExternalInit(_) => "external_init",
        Proposal::GroupContextExtensions(_) => "gce",
        Proposal::Custom(_) => "custom",
        #[allow(unreachable_patterns)]
        _ => "other",
    }
}

fn summary(d: &CommitMessageDescription) -> Option<(BTreeMap<String, usize>, BTreeMap<String, usize>)> {
    let ne = match &d.effect {
        CommitEffect::NewEpoch(n) => n,
        CommitEffect::Removed { new_epoch, .. } => new_epoch,
        CommitEffect::ReInit(_) => return None,
    };
    let count = |v: &[mls_rs::mls_rules::ProposalInfo<Proposal>]| {
        let mut m = BTreeMap::new();
        for p in v {
            *m.entry(format!("{}|{:?}", kind_of(&p.proposal), p.sender)).or_insert(0) += 1;
        }
        m
    };
    Some((count(&ne.applied_proposals), count(&ne.unused_proposals)))
}

fn run_case(base: &[World], c: &Case, ctx: &mut Ctx) {
    let mut w = base[c.seed].clone();
    let label = format!("{c:?}");
    ctx.cur_trail = vec![label.clone()];
    let members = w.members();
    let k = c.committer;
    let others: Vec<usize> = members.iter().copied().filter(|m| *m != k).collect();
    let roles = Roles { a: others[0], b: others[1], x: others[2] };
    let outsiders = w.outsiders();
    let (o1, o2, o3) = (outsiders[0], outsiders[1], outsiders[2]);
    let table = std::mem::take(&mut w.stores);
    stores::install(table);
    let r = std::panic::catch_unwind(std::panic::AssertUnwindSafe(|| {
        // ---- by-reference proposals
        let mut msgs: Vec<(Atom, MlsMessage)> = vec![];
        let mut add_kps: Vec<(usize, MlsMessage)> = vec![];
        for &a in &c.by_ref {
            let m = match a {
                Atom::AddNew => w.propose(roles.a, &Prop::Add(o1)).map(|(m, kp)| {
                    add_kps.push((o1, kp.unwrap()));
                    m
                }),
                Atom::AddExisting => {
                    // a fresh key package of somebody who already is a member
                    let kp = w.key_package(roles.b);
                    kp.and_then(|kp| w.gm(roles.a).propose_add(kp, vec![]))
                }
                Atom::AddExpired => {
                    let kp = w.parties[o2].client.generate_key_package_message(Default::default(), Default::default(), Some(time(w.clock - 3 * 366 * 86400)));
                    kp.and_then(|kp| w.gm(roles.b).propose_add(kp, vec![]))
                }
                Atom::AddExpiredOther => {
                    let kp = w.parties[o3].client.generate_key_package_message(Default::default(), Default::default(), Some(time(w.clock - 3 * 366 * 86400)));
                    kp.and_then(|kp| w.gm(roles.a).propose_add(kp, vec![]))
                }
                Atom::UpdateByA | Atom::UpdateByAAgain => w.propose_update(roles.a),
                Atom::UpdateByB => w.propose_update(roles.b),
                Atom::UpdateByCommitter => w.propose_update(k),
                Atom::RemoveX => w.propose(roles.a, &Prop::Remove(roles.x)).map(|x| x.0),
                Atom::RemoveXBySecondProposer => w.propose(roles.b, &Prop::Remove(roles.x)).map(|x| x.0),
                Atom::RemoveA => w.propose(roles.b, &Prop::Remove(roles.a)).map(|x| x.0),
                Atom::RemoveCommitter => w.propose(roles.a, &Prop::Remove(k)).map(|x| x.0),
                Atom::PskKnown => w.propose(roles.a, &Prop::ExternalPsk(0)).map(|x| x.0),
                Atom::PskKnownAgain => w.propose(roles.b, &Prop::ExternalPsk(0)).map(|x| x.0),
                Atom::Gce1 => w.propose(roles.a, &Prop::Gce(1)).map(|x| x.0),
                Atom::Gce2 => w.propose(roles.b, &Prop::Gce(2)).map(|x| x.0),
                Atom::Custom => w.propose(roles.b, &Prop::Custom(7)).map(|x| x.0),
                Atom::ReInit => w.propose(roles.a, &Prop::ReInit).map(|x| x.0),
            };
            match m {
                Ok(m) => msgs.push((a, m)),
                Err(e) => {
                    ctx.outcome(format!("proposer-refuses:{a:?}:{}", err_name(&e)));
                    return;
                }
            }
        }
        // deliver: everybody in order, roles.x in reverse order; senders already have their own
        let sender_of = |a: Atom| match a {
            Atom::AddNew | Atom::AddExisting | Atom::AddExpiredOther | Atom::UpdateByA | Atom::UpdateByAAgain | Atom::RemoveX | Atom::RemoveCommitter | Atom::PskKnown | Atom::Gce1 | Atom::ReInit => roles.a,
            Atom::UpdateByCommitter => k,
            _ => roles.b,
        };
        // a fork of B that misses the first proposal it did not send itself
        let mut lacking = w.g(roles.b).clone();
        let mut lacking_missed: Option<Atom> = None;
        for &p in &members {
            let order: Vec<&(Atom, MlsMessage)> = if p == roles.x { msgs.iter().rev().collect() } else { msgs.iter().collect() };
            for (a, m) in order {
                if sender_of(*a) == p {
                    continue;
                }
                if let Err(e) = w.process(p, m) {
                    ctx.violation(format!("honest-proposal-refused|{a:?}|{}", err_name(&e)), format!("{} refuses the proposal {a:?} of an honest member: {e:?} [{label}]", w.parties[p].name));
                    return;
                }
            }
        }
        for (a, m) in &msgs {
            if sender_of(*a) == roles.b {
                continue;
            }
            if lacking_missed.is_none() {
                lacking_missed = Some(*a);
                continue;
            }
            let _ = lacking.process_incoming_message_with_time(m.clone(), time(w.clock));
        }
        // ---- commit
        let spec = CommitSpec {
            props: match c.by_value {
                ByValue::None => vec![],
                ByValue::AddNew2 => vec![Prop::Add(o2)],
                ByValue::RemoveX => vec![Prop::Remove(roles.x)],
                ByValue::PskKnown => vec![Prop::ExternalPsk(0)],
                ByValue::Gce => vec![Prop::Gce(9)],
                ByValue::RemoveCommitter => vec![Prop::Remove(k)],
                ByValue::PskUnknown => vec![Prop::ExternalPsk(9)],
                ByValue::AddExisting => vec![Prop::Add(roles.b)],
            },
            ..Default::default()
        };
        let by_value_invalid = matches!(c.by_value, ByValue::RemoveCommitter | ByValue::PskUnknown | ByValue::AddExisting);
        let pre_lacking = effective(&lacking, roles.b as u32);
        ctx.eval();
        let built = match w.commit(k, &spec) {
            Ok(b) => b,
            Err(e) => {
                ctx.outcome(format!("build-err:{}", err_name(&e)));
                if !by_value_invalid {
                    // a build may also fail for a legitimate conflict between by-value and
                    // by-reference proposals (two GCEs, the same leaf removed twice, PSK twice ...)
                    let conflict = match c.by_value {
                        ByValue::Gce => c.by_ref.iter().any(|a| matches!(a, Atom::Gce1 | Atom::Gce2)),
                        ByValue::RemoveX => c.by_ref.iter().any(|a| matches!(a, Atom::RemoveX | Atom::RemoveXBySecondProposer)),
                        ByValue::PskKnown => c.by_ref.iter().any(|a| matches!(a, Atom::PskKnown | Atom::PskKnownAgain)),
                        ByValue::AddNew2 => c.by_ref.contains(&Atom::AddExpired),
                        _ => false,
                    } || c.by_ref.contains(&Atom::ReInit);
                    if !conflict {
                        ctx.violation(format!("valid-proposals-not-committable|{}", err_name(&e)), format!("a commit over valid by-value proposals cannot be built: {e:?} [{label}]"));
                    }
                }
                return;
            }
        };
        if by_value_invalid {
            ctx.violation(format!("invalid-by-value-proposal-committed|{:?}", c.by_value), format!("the library committed an invalid by-value proposal [{label}]"));
        }
        let msg = built.out.commit_message.clone();
        // ---- receivers
        let mut descs: Vec<(usize, CommitMessageDescription)> = vec![];
        for &p in &others {
            ctx.eval();
            match w.process(p, &msg) {
                Ok(ReceivedMessage::Commit(d)) => {
                    ctx.outcome("receiver:accepts");
                    descs.push((p, d));
                }
                Ok(_) => {}
                Err(e) => {
                    ctx.violation(
                        format!("receiver-rejects-honest-commit|{}", err_name(&e)),
                        format!("{} (saw every proposal) rejects the commit {} built over {:?} + {:?}: {e:?} [{label}]", w.parties[p].name, w.parties[k].name, c.by_ref, c.by_value),
                    );
                    return;
                }
            }
        }
        let kd = match w.apply(k) {
            Ok(d) => d,
            Err(e) => {
                ctx.violation(format!("apply-failed|{}", err_name(&e)), format!("{e:?} [{label}]"));
                return;
            }
        };
        // applied / unused sets agree (a removed member's view is included: it reports them too)
        let ks = summary(&kd);
        for (p, d) in &descs {
            ctx.eval();
            if summary(d) != ks {
                ctx.violation("applied-or-unused-proposals-differ", format!("{} reports {:?}, the committer {:?} [{label}]", w.parties[*p].name, summary(d), ks));
            }
        }
        // epoch state agrees among those who are still members
        if !matches!(kd.effect, CommitEffect::ReInit(_)) {
            let reference = ledger_entry(&w, k);
            for (p, d) in &descs {
                if matches!(d.effect, CommitEffect::NewEpoch(_)) {
                    let e = ledger_entry(&w, *p);
                    if e.context != reference.context || e.authenticator != reference.authenticator || e.tree != reference.tree {
                        ctx.violation("epoch-state-differs-after-commit", format!("{} and the committer disagree on the new epoch [{label}]", w.parties[*p].name));
                    }
                }
            }
        }
        // the member that missed a proposal
        if let Some(missed) = lacking_missed {
            ctx.eval();
            let referenced = ks.as_ref().map(|(applied, _)| {
                let key = match missed {
                    Atom::AddNew | Atom::AddExisting | Atom::AddExpired | Atom::AddExpiredOther => "add",
                    Atom::UpdateByA | Atom::UpdateByAAgain | Atom::UpdateByB | Atom::UpdateByCommitter => "update",
                    Atom::RemoveX | Atom::RemoveXBySecondProposer | Atom::RemoveA | Atom::RemoveCommitter => "remove",
                    Atom::PskKnown | Atom::PskKnownAgain => "psk",
                    Atom::Gce1 | Atom::Gce2 => "gce",
                    Atom::Custom => "custom",
                    Atom::ReInit => "reinit",
                };
                applied.keys().any(|k2| k2.starts_with(key) && k2.contains(&format!("Member({})", base[c.seed].leaf_of(sender_of(missed)))))
            });
            match lacking.process_incoming_message_with_time(msg.clone(), time(w.clock)) {
                Err(e) => {
                    ctx.outcome(format!("lacking-member:refuses:{}", err_name(&e)));
                    let post = effective(&lacking, roles.b as u32);
                    let d = diff(&pre_lacking, &post, &[]);
                    if !d.is_empty() {
                        ctx.violation(format!("refusing-member-changed|{}|{}", err_name(&e), diff_classes(&d)), format!("a member missing {missed:?} refused the commit but changed in {d:?} [{label}]"));
                    }
                    ctx.goal("member-missing-a-referenced-proposal");
                }
                Ok(_) => {
                    // two Updates of one member cannot be told apart by (kind, sender): the
                    // commit may reference the one this member did receive
                    let ambiguous = matches!(missed, Atom::UpdateByA | Atom::UpdateByAAgain) && c.by_ref.contains(&Atom::UpdateByA) && c.by_ref.contains(&Atom::UpdateByAAgain);
                    if referenced == Some(true) && !ambiguous {
                        ctx.violation("commit-accepted-without-referenced-proposal", format!("a member that never received {missed:?} accepted a commit that applies it by reference [{label}]"));
                    } else {
                        ctx.outcome("lacking-member:accepts(unreferenced)");
                    }
                }
            }
        }
        // ---- rule table (coarse): what must never / always be applied
        if let Some((applied, unused)) = &ks {
            let n = |m: &BTreeMap<String, usize>, kind: &str| m.iter().filter(|(k2, _)| k2.starts_with(kind)).map(|(_, v)| *v).sum::<usize>();
            let leaf = |p: usize| format!("Member({})", base[c.seed].leaf_of(p));
            let has = |m: &BTreeMap<String, usize>, kind: &str, by: usize| m.get(&format!("{kind}|{}", leaf(by))).copied().unwrap_or(0);
            // never: an Update of the committer, a Remove of the committer
            if has(applied, "update", k) > 0 {
                ctx.violation("committer-update-applied", format!("an Update proposal of the committer was applied [{label}]"));
            }
            // at most one GCE, at most one Update per member
            if n(applied, "gce") > 1 {
                ctx.violation("two-gce-applied", format!("more than one GroupContextExtensions proposal was applied [{label}]"));
            }
            for &p in &others {
                if has(applied, "update", p) > 1 {
                    ctx.violation("two-updates-of-one-leaf-applied", format!("two Updates of {} were applied [{label}]", w.parties[p].name));
                }
            }
            // adds: the expired and the duplicate-identity key packages are never applied
            let adds_expected_max = c.by_ref.iter().filter(|a| **a == Atom::AddNew).count() + (c.by_value == ByValue::AddNew2) as usize;
            if n(applied, "add") > adds_expected_max {
                ctx.violation("invalid-add-applied", format!("{} Add proposals applied but only {adds_expected_max} are valid [{label}]", n(applied, "add")));
            }
            // a lone valid atom is applied
            if c.by_ref.len() == 1 && c.by_value == ByValue::None {
                let valid_alone = matches!(c.by_ref[0], Atom::AddNew | Atom::UpdateByA | Atom::UpdateByB | Atom::RemoveX | Atom::RemoveA | Atom::PskKnown | Atom::Gce1 | Atom::Custom | Atom::RemoveXBySecondProposer | Atom::PskKnownAgain | Atom::Gce2 | Atom::UpdateByAAgain);
                let total: usize = applied.values().sum();
                if valid_alone && total != 1 {
                    ctx.violation(format!("valid-proposal-dropped|{:?}", c.by_ref[0]), format!("the only cached proposal is valid but {total} proposals were applied (unused: {unused:?}) [{label}]"));
                }
                if !valid_alone && total != 0 && c.by_ref[0] != Atom::ReInit {
                    ctx.violation(format!("invalid-proposal-applied|{:?}", c.by_ref[0]), format!("the only cached proposal is invalid but was applied [{label}]"));
                }
            }
        }
        let _ = add_kps;
        ctx.report.traces += 1;
    }));
    let _ = stores::uninstall();
    ctx.report.transitions += 1;
    if r.is_err() {
        let (loc, msg, lib) = take_panic();
        if lib {
            ctx.violation(format!("panic|{loc}"), format!("library panicked: {msg} [{label}]"));
        } else {
            crate::engine::machinery(&format!("harness panic at {loc}: {msg}"));
        }
    }
}

pub fn cases(tier: &str) -> Vec<Case> {
    let quick = tier == "quick";
    let mut sets: Vec<Vec<Atom>> = vec![vec![]];
    let n = BY_REF.len();
    for i in 0..n {
        sets.push(vec![BY_REF[i]]);
        for j in i + 1..n {
            sets.push(vec![BY_REF[i], BY_REF[j]]);
            for l in j + 1..n {
                sets.push(vec![BY_REF[i], BY_REF[j], BY_REF[l]]);
                if !quick {
                    for m in l + 1..n {
                        sets.push(vec![BY_REF[i], BY_REF[j], BY_REF[l], BY_REF[m]]);
                    }
                }
            }
        }
    }
    let mut out = vec![];
    for seed in 0..2 {
        let members: Vec<usize> = if seed == 0 { vec![0, 1, 2, 3, 4] } else { vec![0, 2, 3, 4] };
        let committers: Vec<usize> = members.clone();
        let _ = quick;
        for &committer in &committers {
            for s in &sets {
                // "again" atoms only together with their first occurrence
                if s.contains(&Atom::UpdateByAAgain) && !s.contains(&Atom::UpdateByA) {
                    continue;
                }
                for bv in BY_VALUE {
                    out.push(Case { seed, committer, by_ref: s.clone(), by_value: bv });
                }
            }
        }
    }
    out
}

pub fn meta(tier: &str) -> Meta {
    Meta {
        level: "model_checking",
        rule: "every set of <= 3 (thorough: <= 4) of 18 by-reference proposal atoms (valid and invalid: add new / existing identity / expired key package, update by two members, the same member twice, the committer; remove by one or two proposers, of a proposer, of the committer; PSK once and twice; one or two GCEs; custom; re-init) x 8 by-value atoms (3 invalid) x committer x 2 seed trees (dense 5, interior blank 4), proposals sent by real members and delivered to everybody (one receiver in reverse order, one fork missing the first); a case is judged by receiver acceptance, equality of applied / unused sets and epoch state between committer and receivers, refusal + unchanged state of the member that misses a referenced proposal, and a coarse RFC 9420 12.2 rule table; plus (checks/c10x.rs) every proposal kind re-issued as a correctly signed proposal of the group's external sender, of an external sender that is not in the list, and as a new-member proposal, alone, together with each genuine member proposal (both orders) and in pairs, committed by reference: nothing panics, members with the same cache accept the commit and agree on applied / unused sets and the epoch, a proposal whose sender RFC 9420 12.1 does not allow for its type is never applied, a proposal of an unknown external sender is never cached; plus (checks/c10y.rs) an adversarial committer (hook H8: its proposal filter keeps what it finds invalid, everything downstream is computed consistently by the library) over 22 invalid proposal sets, hand-encoded through CommitBuilder::raw_proposal where the public builders refuse (removal / update of the committer, update by value, two changes to one leaf, duplicate PSK, bad PSK nonce length or usage, two GCEs, GCE requiring an unsupported extension, re-init with other proposals or another version, Add of a member / expired / duplicate / other-suite key package, Remove of a blank leaf or beyond the tree, unsupported custom type, Update from an external sender) and 3 valid control sets: every receiver must refuse each invalid commit that really carries the set and stay unchanged, and accept the controls; plus (checks/c10z.rs) 4-member groups under 5 patterns of which members support a second credential type, every subset (and both orders) of by-reference Adds of three outsiders (credential of the second type / basic supporting both / basic only) x committer x by-value part (nothing, PSK, Add of a basic-only party) followed by a second commit of the same or another member (empty or adding a basic-only party): the commit must be buildable whenever its by-value part is valid, accepted by all with equal applied / unused sets and epoch state, an Add whose credential type some member lacks is never applied and is reported unused, valid Adds are applied, added parties join, and the follow-up commit is built and accepted (the committer's validation state keeps nothing of a dropped leaf); states = cases".into(),
        assumptions: {
            let mut a = default_assumptions();
            a.push("where RFC 9420 leaves the choice among conflicting proposals to the committer only agreement between committer and receivers is demanded".into());
            a
        },
        bounds: bounds_json(&[("cases", json!(cases(tier).len()))]),
        required_goals: vec!["member-missing-a-referenced-proposal", "commit-over-non-member-proposals", "non-member-proposal-applied", "adversarial-procedure-validated", "invalid-commit-built", "unsupported-credential-add-dropped", "second-credential-type-added", "follow-up-commit-after-dropped-add"],
        min_outcomes: 5,
        workers: 16,
    }
}

pub fn run(ctx: &mut Ctx) {
    let base = vec![seed_world(0), seed_world(1)];
    let cs = cases(&ctx.tier.clone());
    for (i, c) in cs.iter().enumerate() {
        if !ctx.mine(i) {
            continue;
        }
        if ctx.over_cap() {
            break;
        }
        ctx.path = vec![i];
        run_case(&base, c, ctx);
        ctx.extra("states", 1);
        if i % 3001 == 0 {
            ctx.sample(json!(format!("{c:?}")));
        }
    }
    // proposals of external senders and new members (checks/c10x.rs)
    super::c10x::run(ctx);
    // invalid proposal sets received from an adversarial committer (checks/c10y.rs)
    super::c10y::run(ctx);
    // members that differ in the credential types they support (checks/c10z.rs)
    super::c10z::run(ctx);
}

pub fn replay(ctx: &mut Ctx, path: &[usize]) {
    let base = vec![seed_world(0), seed_world(1)];
    let cs = cases(&ctx.tier.clone());
    let idx = *path.last().unwrap_or(&0);
    let Some(c) = cs.get(idx) else { crate::engine::machinery("no such case") };
    println!("case {idx}: {c:?}");
    run_case(&base, c, ctx);
}
