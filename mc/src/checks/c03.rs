//! C03: any modification or forgery of protocol traffic is rejected.
//!
//! A scripted world (public and encrypted handshake) yields one item per message kind together
//! with the world as it was before delivery. Mutation space, enumerated exhaustively per item:
//! every single-bit flip (quick: one bit per byte), every truncation, every field splice with a
//! partner item of the same kind and epoch, replay into every other recorded epoch, into the
//! receivers' post-state and into a second group of the same parties; insider forgeries of a
//! public proposal re-signed with the forger's own key and re-MACed with the epoch's membership
//! key (hook H6); and structurally invalid commits produced by an adversarial committer whose
//! library computes everything downstream consistently (hook H7).

use mls_rs::external_client::builder::ExternalClientBuilder;
use mls_rs::group::proposal::ProposalType;
use mls_rs::group::verif_hooks::encap::{self, Mutation};
use mls_rs::group::{ExportedTree, ReceivedMessage};
use mls_rs::{CipherSuiteProvider, MlsMessage};
use mls_rs_codec::MlsEncode;
use mls_rs_core::extension::ExtensionType;
use serde_json::json;

use super::{bounds_json, default_assumptions, Meta};
use crate::engine::{take_panic, Ctx};
use crate::oracles::{cs_of, ledger_entry, msg_bytes, tree_bytes};
use crate::providers::{DynProvider, Which};
use crate::reference::framing::{layout, splice, Layout};
use crate::reference::keysched::Suite;
use crate::reference::tls::put_vbytes;
use crate::stores;
use crate::world::*;

#[derive(Clone)]
struct Item {
    kind: String,
    bytes: Vec<u8>,
    /// world right before delivery (stores inside)
    pre: World,
    receivers: Vec<usize>,
    sender: usize,
    /// (payload, authenticated data) for application messages
    app: Option<(Vec<u8>, Vec<u8>)>,
    /// out-of-band tree for welcome / group info items
    tree: Option<Vec<u8>>,
    /// partner item index for splices
    partner: Option<usize>,
}

fn observer_client() -> mls_rs::external_client::ExternalClient<super::c16::ExtCfg> {
    ExternalClientBuilder::new()
        .crypto_provider(DynProvider::new(Which::Rust, 960))
        .identity_provider(HIdentity { party: 960 })
        .extension_type(ExtensionType::new(CUSTOM_EXT))
        .custom_proposal_types(Some(ProposalType::new(CUSTOM_PROP)))
        .build()
}

/// Deliver `bytes` (of item kind `kind`) to receiver `r` in world `w` (forks only).
/// Ok(Some(desc)) = accepted (desc for comparison), Ok(None) = rejected.
fn deliver(w: &World, item: &Item, bytes: &[u8], r: usize) -> Option<String> {
    let kind = item.kind.as_str();
    if kind.starts_with("exported-tree") {
        let gi = MlsMessage::from_bytes(item.tree.as_ref().unwrap()).ok()?;
        let tree = ExportedTree::from_bytes(bytes).ok()?;
        return observer_client().observe_group(gi, Some(tree), w.now()).ok().map(|o| format!("observer@{}", o.group_context().epoch));
    }
    let m = MlsMessage::from_bytes(bytes).ok()?;
    if kind.starts_with("welcome") {
        let tree = item.tree.as_ref().and_then(|t| ExportedTree::from_bytes(t).ok());
        return stores::with_fork(|| w.parties[r].client.join_group(tree, &m, w.now()).ok().map(|(g, _)| format!("joined@{}:{:02x?}", g.current_epoch(), g.epoch_authenticator().map(|s| s.as_bytes()[..4].to_vec()).unwrap_or_default())));
    }
    if kind.starts_with("group-info") {
        let tree = item.tree.as_ref().and_then(|t| ExportedTree::from_bytes(t).ok());
        return observer_client().observe_group(m, tree, w.now()).ok().map(|o| format!("observer@{}", o.group_context().epoch));
    }
    if kind.starts_with("key-package") {
        // a member tries to add the (mutated) key package
        let mut g = w.g(r).clone();
        return stores::with_fork(|| g.commit_builder().commit_time(time(w.clock)).add_member(m).and_then(|b| b.build()).ok().map(|_| "added".to_string()));
    }
    let mut g = w.g(r).clone();
    stores::with_fork(|| match g.process_incoming_message_with_time(m, time(w.clock)) {
        Ok(ReceivedMessage::ApplicationMessage(d)) => Some(format!("app|{}|{:?}|{:?}", d.sender_index, d.data(), d.authenticated_data)),
        Ok(ReceivedMessage::Proposal(p)) => Some(format!("proposal|{:?}", p.sender)),
        Ok(ReceivedMessage::Commit(c)) => Some(format!("commit|{}|{}", c.committer, g.current_epoch())),
        Ok(_) => Some("other".to_string()),
        Err(_) => None,
    })
}

fn guarded_deliver(w: &World, item: &Item, bytes: &[u8], r: usize, what: &str, ctx: &mut Ctx) -> Option<String> {
    ctx.eval();
    match std::panic::catch_unwind(std::panic::AssertUnwindSafe(|| deliver(w, item, bytes, r))) {
        Ok(x) => x,
        Err(_) => {
            let (loc, msg, lib) = take_panic();
            if !lib {
                crate::engine::machinery(&format!("harness panic at {loc}: {msg}"));
            }
            ctx.violation(format!("panic|{}|{loc}", item.kind.split('#').next().unwrap_or("")), format!("receiver panicked on a {} ({what}): {msg}", item.kind));
            None
        }
    }
}

fn script(cfg: WorldCfg, group_id: &[u8]) -> Vec<Item> {
    let tag = if cfg.encrypt_handshake { "private" } else { "public" };
    let mut w = World::new(cfg, 6);
    w.group_id = group_id.to_vec();
    for p in 0..6 {
        w.set_psk(p, 0, b"psk-zero-value".to_vec());
    }
    let mut items: Vec<Item> = vec![];
    let table = std::mem::take(&mut w.stores);
    stores::install(table);
    let r = std::panic::catch_unwind(std::panic::AssertUnwindSafe(|| {
        let snap = |w: &World| {
            let mut c = w.clone();
            c.stores = stores::with_fork(|| {
                let t = stores::uninstall();
                let copy = t.clone();
                stores::install(t);
                copy
            });
            c
        };
        w.create(0)?;
        let kp = w.key_package(5)?;
        items.push(Item { kind: "key-package".into(), bytes: msg_bytes(&kp), pre: snap(&w), receivers: vec![0], sender: 5, app: None, tree: None, partner: None });
        let b = w.commit(0, &CommitSpec { props: vec![Prop::Add(1), Prop::Add(2), Prop::Add(3)], ..Default::default() })?;
        w.apply(0)?;
        let tree = tree_bytes(w.g(0));
        let pre = snap(&w);
        for (i, wm) in b.out.welcome_messages.iter().enumerate() {
            let rec: Vec<usize> = [1, 2, 3].into_iter().filter(|p| w.parties[*p].client.clone().join_group(ExportedTree::from_bytes(&tree).ok(), wm, w.now()).is_ok()).collect();
            items.push(Item { kind: format!("welcome#{i}"), bytes: msg_bytes(wm), pre: pre.clone(), receivers: rec, sender: 0, app: None, tree: Some(tree.clone()), partner: None });
        }
        for p in [1, 2, 3] {
            let t = ExportedTree::from_bytes(&tree).ok();
            let wm = b.out.welcome_messages.iter().find(|wm| w.parties[p].client.clone().join_group(t.clone(), wm, w.now()).is_ok()).cloned();
            let Some(wm) = wm else { return Err(mls_rs::error::MlsError::WelcomeKeyPackageNotFound) };
            w.join(p, &wm, t)?;
        }
        let gi = w.g(1).group_info_message(false)?;
        items.push(Item { kind: "group-info".into(), bytes: msg_bytes(&gi), pre: snap(&w), receivers: vec![0], sender: 1, app: None, tree: Some(tree.clone()), partner: None });
        items.push(Item { kind: "exported-tree".into(), bytes: tree.clone(), pre: snap(&w), receivers: vec![0], sender: 1, app: None, tree: Some(msg_bytes(&gi)), partner: None });
        // two application messages of one epoch (splice partners)
        let pre = snap(&w);
        let a1 = w.send(1, b"application one", b"aad-1")?;
        let a2 = w.send(2, b"application two!", b"aad-2")?;
        let n = items.len();
        items.push(Item { kind: "application#1".into(), bytes: msg_bytes(&a1), pre: pre.clone(), receivers: vec![0, 2, 3], sender: 1, app: Some((b"application one".to_vec(), b"aad-1".to_vec())), tree: None, partner: Some(n + 1) });
        items.push(Item { kind: "application#2".into(), bytes: msg_bytes(&a2), pre: pre.clone(), receivers: vec![0, 1, 3], sender: 2, app: Some((b"application two!".to_vec(), b"aad-2".to_vec())), tree: None, partner: Some(n) });
        // two proposals of one epoch
        let pre = snap(&w);
        let p1 = w.propose_update(2)?;
        let (p2, _) = w.propose(1, &Prop::Remove(3))?;
        let n = items.len();
        items.push(Item { kind: format!("{tag}-proposal-update"), bytes: msg_bytes(&p1), pre: pre.clone(), receivers: vec![0, 1, 3], sender: 2, app: None, tree: None, partner: Some(n + 1) });
        items.push(Item { kind: format!("{tag}-proposal-remove"), bytes: msg_bytes(&p2), pre: pre.clone(), receivers: vec![0, 2, 3], sender: 1, app: None, tree: None, partner: Some(n) });
        // a member proposal that is never delivered in its epoch, and a new-member proposal:
        // both exist only to be replayed into later epochs
        {
            let mut g2 = w.g(2).clone();
            let undelivered = stores::with_fork(|| g2.propose_group_context_extensions(w.context_ext(Some(0x55)), vec![]))?;
            items.push(Item { kind: format!("{tag}-proposal-undelivered"), bytes: msg_bytes(&undelivered), pre: pre.clone(), receivers: vec![0, 1, 3], sender: 2, app: None, tree: None, partner: None });
            let gi = w.g(0).group_info_message(false)?;
            let t = ExportedTree::from_bytes(&tree_bytes(w.g(0))).ok();
            let nm = stores::with_fork(|| w.parties[5].client.external_add_proposal(&gi, t, vec![], Default::default(), Default::default(), w.now()))?;
            items.push(Item { kind: "public-proposal-new-member".into(), bytes: msg_bytes(&nm), pre: pre.clone(), receivers: vec![0, 1, 2, 3], sender: 5, app: None, tree: None, partner: None });
        }
        for p in [0, 1, 3] {
            w.process(p, &p1)?;
        }
        for p in [0, 2, 3] {
            w.process(p, &p2)?;
        }
        // two competing commits of one epoch
        let pre = snap(&w);
        let c_other = {
            let mut w2 = w.clone();
            stores::with_fork(|| w2.commit(2, &CommitSpec::default()).map(|b| b.out.commit_message))?
        };
        let b = w.commit(0, &CommitSpec::default())?;
        let n = items.len();
        items.push(Item { kind: format!("{tag}-commit-by-ref"), bytes: msg_bytes(&b.out.commit_message), pre: pre.clone(), receivers: vec![1, 2, 3], sender: 0, app: None, tree: None, partner: Some(n + 1) });
        items.push(Item { kind: format!("{tag}-commit-competing"), bytes: msg_bytes(&c_other), pre: pre.clone(), receivers: vec![0, 1, 3], sender: 2, app: None, tree: None, partner: Some(n) });
        for p in [1, 2, 3] {
            w.process(p, &b.out.commit_message)?;
        }
        w.apply(0)?;
        w.retire(3, true);
        // a commit with add and path in the next epoch
        let pre = snap(&w);
        let b = w.commit(1, &CommitSpec { props: vec![Prop::Add(4), Prop::ExternalPsk(0)], ..Default::default() })?;
        items.push(Item { kind: format!("{tag}-commit-add-psk"), bytes: msg_bytes(&b.out.commit_message), pre, receivers: vec![0, 2], sender: 1, app: None, tree: None, partner: None });
        for p in [0, 2] {
            w.process(p, &b.out.commit_message)?;
        }
        w.apply(1)?;
        Ok::<(), mls_rs::error::MlsError>(())
    }));
    let _ = stores::uninstall();
    match r {
        Ok(Ok(())) => items,
        Ok(Err(e)) => crate::engine::machinery(&format!("C03 script failed: {e:?}")),
        Err(_) => crate::engine::machinery("C03 script panicked"),
    }
}

fn with_world<R>(w: &World, f: impl FnOnce(&World) -> R) -> R {
    stores::install(w.stores.clone());
    let r = std::panic::catch_unwind(std::panic::AssertUnwindSafe(|| f(w)));
    let _ = stores::uninstall();
    match r {
        Ok(r) => r,
        Err(e) => std::panic::resume_unwind(e),
    }
}

fn sweep_item(items: &[Item], idx: usize, second_group: &[Item], ctx: &mut Ctx) {
    let item = &items[idx];
    let quick = ctx.quick();
    ctx.cur_trail = vec![format!("item {idx}: {} ({} bytes)", item.kind, item.bytes.len())];
    ctx.path = vec![idx];
    with_world(&item.pre, |w| {
        // genuine delivery: accepted, reported with the true sender / payload / aad
        let mut genuine: Vec<Option<String>> = vec![];
        for &r in &item.receivers {
            let g = guarded_deliver(w, item, &item.bytes, r, "genuine", ctx);
            match &g {
                None => ctx.violation(format!("genuine-rejected|{}", item.kind.split('#').next().unwrap_or("")), format!("{} rejects the genuine {}", w.parties[r].name, item.kind)),
                Some(desc) => {
                    if let Some((data, aad)) = &item.app {
                        let want = format!("app|{}|{:?}|{:?}", w.leaf_of(item.sender), &data[..], aad);
                        if *desc != want {
                            ctx.violation("genuine-misreported", format!("genuine application message reported as {desc}, sent as {want}"));
                        }
                    }
                    ctx.outcome("genuine:accepted");
                }
            }
            genuine.push(g);
        }
        let lay: Option<Layout> = layout(&item.bytes).ok();
        let judge = |bytes: &[u8], what: &str, class: &str, ctx: &mut Ctx| {
            for (ri, &r) in item.receivers.iter().enumerate() {
                let res = guarded_deliver(w, item, bytes, r, what, ctx);
                match res {
                    None => ctx.outcome(format!("{class}:rejected")),
                    Some(desc) => {
                        // the parts of a Welcome addressed to another joiner may be altered at will
                        if item.kind.starts_with("welcome") && Some(&desc) == genuine[ri].as_ref() && what.contains("secrets[") {
                            ctx.outcome("welcome:other-recipients-part-altered(accepted identically)");
                            continue;
                        }
                        ctx.violation(
                            format!("modified-message-accepted|{}|{class}", item.kind.split('#').next().unwrap_or("")),
                            format!("{} accepted a {} modified by {what} (reported as {desc})", w.parties[r].name, item.kind),
                        );
                    }
                }
            }
        };
        // every bit flip (quick: one bit per byte) and every truncation
        for off in 0..item.bytes.len() {
            // the MLSMessage wrapper version of a bare key package is not covered by the key
            // package's signature and key packages are not among the message kinds the property
            // lists; the signed KeyPackage body is swept
            if item.kind.starts_with("key-package") && off < 2 {
                continue;
            }
            let bits: Vec<u8> = (0..8).collect();
            for bit in bits {
                let mut m = item.bytes.clone();
                m[off] ^= 1 << bit;
                let region = lay.as_ref().map(|l| l.region_of(off).to_string()).unwrap_or_default();
                judge(&m, &format!("flipping bit {bit} of byte {off} ({region})"), "bit-flip", ctx);
            }
            ctx.report.transitions += 1;
        }
        for len in 0..item.bytes.len() {
            let _ = quick;
            judge(&item.bytes[..len], &format!("truncation to {len} bytes"), "truncation", ctx);
        }
        // field splices with the partner of the same kind and epoch
        if let (Some(pi), Some(la)) = (item.partner, &lay) {
            let partner = &items[pi];
            if let Ok(lb) = layout(&partner.bytes) {
                for region in &la.regions {
                    if let Some(m) = splice(&item.bytes, la, &partner.bytes, &lb, &region.name) {
                        if m != item.bytes {
                            judge(&m, &format!("splicing field {} of a {}", region.name, partner.kind), "splice", ctx);
                            ctx.goal("field-splice");
                        }
                    }
                }
            }
        }
        // already processed: a second delivery to the same receiver must fail
        if item.kind.starts_with("application") || item.kind.contains("commit") {
            if let Ok(m) = MlsMessage::from_bytes(&item.bytes) {
                for &r in &item.receivers {
                    let mut g = w.g(r).clone();
                    ctx.eval();
                    let twice = stores::with_fork(|| {
                        let e0 = g.current_epoch();
                        let first = g.process_incoming_message_with_time(m.clone(), time(w.clock)).is_ok();
                        // a member removed by the commit learns of its removal and stays where it
                        // is: reading that commit again is not a replay into a later state
                        let moved = item.kind.starts_with("application") || g.current_epoch() != e0;
                        first && moved && g.process_incoming_message_with_time(m.clone(), time(w.clock)).is_ok()
                    });
                    if twice {
                        ctx.violation(format!("replay-after-processing-accepted|{}", item.kind.split('#').next().unwrap_or("")), format!("{} accepted the same {} twice", w.parties[r].name, item.kind));
                    } else {
                        ctx.outcome("replay:already-processed-rejected");
                    }
                }
            }
        }
        // insider forgeries of public proposals
        if item.kind.starts_with("public-proposal") {
            insider_forgeries(w, item, &judge, ctx);
        }
    });
    // replay into every other recorded state (other epochs), and into the post-state
    for (j, other) in items.iter().enumerate() {
        if j == idx || !item.kind.contains('-') && !item.kind.starts_with("application") {
            continue;
        }
        // (an application message of a retained earlier epoch that the receiver has not seen yet
        // is a legitimate late delivery, C19's subject: only handshake messages are replayed
        // across epochs; applications are replayed into the post-state below)
        if !(item.kind.contains("proposal") || item.kind.contains("commit")) {
            continue;
        }
        let same_state = other.pre.ledger.len() == item.pre.ledger.len() && other.pre.epoch() == item.pre.epoch() && other.kind.split('#').next() == item.kind.split('#').next();
        if same_state {
            continue;
        }
        with_world(&other.pre, |w| {
            for &r in &w.members() {
                if w.g(r).current_epoch() == item.pre.epoch() {
                    continue;
                }
                if guarded_deliver(w, item, &item.bytes, r, "cross-epoch replay", ctx).is_some() {
                    ctx.violation(format!("cross-epoch-replay-accepted|{}", item.kind.split('#').next().unwrap_or("")), format!("{} at epoch {} accepted a {} of epoch {}", w.parties[r].name, w.g(r).current_epoch(), item.kind, item.pre.epoch()));
                } else {
                    ctx.outcome("replay:other-epoch-rejected");
                }
            }
        });
    }
    // the same parties in a second group
    if item.kind.contains("proposal") || item.kind.contains("commit") || item.kind.starts_with("application") {
        if let Some(other) = second_group.get(idx) {
            with_world(&other.pre, |w| {
                for &r in &w.members() {
                    if guarded_deliver(w, item, &item.bytes, r, "cross-group replay", ctx).is_some() {
                        ctx.violation(format!("cross-group-replay-accepted|{}", item.kind.split('#').next().unwrap_or("")), format!("{} accepted a {} of another group", w.parties[r].name, item.kind));
                    } else {
                        ctx.outcome("replay:other-group-rejected");
                    }
                }
            });
        }
    }
    ctx.extra("states", 1);
    ctx.report.traces += 1;
}

/// A member (the genuine sender) re-signs altered content with its own key and re-MACs it.
fn insider_forgeries(w: &World, item: &Item, judge: &dyn Fn(&[u8], &str, &str, &mut Ctx), ctx: &mut Ctx) {
    let Ok(lay) = layout(&item.bytes) else { return };
    let (Some(sender), Some(sig), Some(tag)) = (lay.region("sender"), lay.region("signature"), lay.region("membership_tag")) else { return };
    let b = &item.bytes;
    let keys = w.g(item.sender).verif_epoch_keys();
    let cs = cs_of(w, item.sender);
    let ctx_bytes = w.g(item.sender).context().mls_encode_to_vec().unwrap_or_default();
    let suite = Suite(w.cfg.suite);
    let n_leaves = w.g(item.sender).roster().members().len() as u32;
    let mut targets: Vec<u32> = w.members().iter().map(|p| w.leaf_of(*p)).filter(|l| *l != w.leaf_of(item.sender)).collect();
    targets.extend([n_leaves, n_leaves + 1, 77, u32::MAX]);
    for leaf in targets {
        // content with another sender leaf
        let mut content = b[4..sig.start].to_vec();
        let s_off = sender.start - 4;
        content[s_off + 1..s_off + 5].copy_from_slice(&leaf.to_be_bytes());
        // FramedContentTBS = version || wire_format || content || group context
        let mut tbs = b[0..4].to_vec();
        tbs.extend_from_slice(&content);
        tbs.extend_from_slice(&ctx_bytes);
        let mut sign_content = vec![];
        put_vbytes(&mut sign_content, b"MLS 1.0 FramedContentTBS");
        put_vbytes(&mut sign_content, &tbs);
        let Ok(signature) = cs.sign(&keys.signer.clone().into(), &sign_content) else { continue };
        let mut auth = vec![];
        put_vbytes(&mut auth, &signature);
        let mut tbm = tbs.clone();
        tbm.extend_from_slice(&auth);
        let mac = suite.hmac(&keys.membership_key, &tbm);
        let mut forged = b[0..4].to_vec();
        forged.extend_from_slice(&content);
        forged.extend_from_slice(&auth);
        put_vbytes(&mut forged, &mac);
        let _ = tag;
        judge(&forged, &format!("an insider re-attributing it to leaf {leaf} (re-signed with its own key, valid membership tag)"), "insider-reattribution", ctx);
        ctx.goal("insider-forgery");
    }
    // control: the same procedure without any change reproduces an acceptable message
    let mut tbs = b[0..4].to_vec();
    tbs.extend_from_slice(&b[4..sig.start]);
    tbs.extend_from_slice(&ctx_bytes);
    let mut sign_content = vec![];
    put_vbytes(&mut sign_content, b"MLS 1.0 FramedContentTBS");
    put_vbytes(&mut sign_content, &tbs);
    if let Ok(signature) = cs.sign(&keys.signer.clone().into(), &sign_content) {
        let mut auth = vec![];
        put_vbytes(&mut auth, &signature);
        let mut tbm = tbs.clone();
        tbm.extend_from_slice(&auth);
        let mut rebuilt = b[0..sig.start].to_vec();
        rebuilt.extend_from_slice(&auth);
        put_vbytes(&mut rebuilt, &suite.hmac(&keys.membership_key, &tbm));
        let ok = item.receivers.iter().all(|r| deliver(w, item, &rebuilt, *r).is_some());
        if ok {
            ctx.goal("insider-forging-procedure-validated");
        } else {
            ctx.note("the insider re-sign/re-MAC procedure does not reproduce an acceptable message: forgery results are vacuous");
        }
    }
}

/// Structurally invalid commits from an adversarial committer (hook H7).
fn adversarial_committer(ctx: &mut Ctx, shard_item: &mut usize) {
    for (shape, blank) in [("dense5", false), ("blank5", true)] {
        let mut w = World::new(WorldCfg::default(), 6);
        let r = w.run(|w| {
            w.create(0)?;
            let b = w.commit(0, &CommitSpec { props: vec![Prop::Add(1), Prop::Add(2), Prop::Add(3), Prop::Add(4)], ..Default::default() })?;
            w.apply(0)?;
            for p in 1..=4 {
                w.join(p, &b.out.welcome_messages[0], None)?;
            }
            for by in 1..=4usize {
                let b = w.commit(by, &CommitSpec::default())?;
                for p in w.members() {
                    if p != by {
                        w.process(p, &b.out.commit_message)?;
                    }
                }
                w.apply(by)?;
            }
            if blank {
                let b = w.commit(0, &CommitSpec { props: vec![Prop::Remove(1)], ..Default::default() })?;
                for p in w.members() {
                    if p != 0 && p != 1 {
                        w.process(p, &b.out.commit_message)?;
                    }
                }
                w.apply(0)?;
                w.retire(1, true);
            }
            Ok::<(), mls_rs::error::MlsError>(())
        });
        if !matches!(r, Ok(Ok(()))) {
            crate::engine::machinery("C03 adversarial-committer world could not be built");
        }
        let members = w.members();
        for &by in &members {
            let mut muts = vec![Mutation::ExtendPath];
            for k in 0..4 {
                muts.push(Mutation::TruncatePath { keep: k });
                muts.push(Mutation::ForeignNodeKey { pos: k });
                muts.push(Mutation::PermuteCiphertexts { pos: k });
                muts.push(Mutation::DropCiphertext { pos: k });
                muts.push(Mutation::SwapNodes { pos: k });
            }
            for m in muts {
                let mine = ctx.mine(*shard_item);
                *shard_item += 1;
                if !mine {
                    continue;
                }
                ctx.cur_trail = vec![format!("adversarial committer: {shape}, committer {}, {m:?}", w.parties[by].name)];
                ctx.path = vec![];
                with_world(&w, |w| {
                    let mut w2 = w.clone();
                    // the genuine commit for comparison (same proposals: none)
                    encap::set(Some(m.clone()));
                    let built = std::panic::catch_unwind(std::panic::AssertUnwindSafe(|| w2.commit(by, &CommitSpec::default())));
                    encap::set(None);
                    let Ok(Ok(built)) = built else {
                        ctx.outcome("adversarial:commit-not-buildable");
                        return;
                    };
                    let genuine_shape = layout(&msg_bytes(&built.out.commit_message)).is_ok();
                    let _ = genuine_shape;
                    let mut accepted = vec![];
                    for &r in &members {
                        if r == by {
                            continue;
                        }
                        ctx.eval();
                        let mut g = w.g(r).clone();
                        let res = std::panic::catch_unwind(std::panic::AssertUnwindSafe(|| g.process_incoming_message_with_time(built.out.commit_message.clone(), time(w.clock))));
                        match res {
                            Err(_) => {
                                let (loc, msg, lib) = take_panic();
                                if !lib {
                                    crate::engine::machinery(&format!("harness panic at {loc}: {msg}"));
                                }
                                let mname = format!("{m:?}").split([' ', '{']).next().unwrap_or("").to_string();
                                ctx.violation(format!("panic|adversarial-commit|{mname}|{loc}"), format!("{} panicked on a commit with {m:?} from {} ({shape}): {msg}", w.parties[r].name, w.parties[by].name));
                            }
                            Ok(Err(e)) => ctx.outcome(format!("adversarial:{}:rejected:{}", format!("{m:?}").split([' ', '{']).next().unwrap_or(""), err_name(&e))),
                            Ok(Ok(_)) => accepted.push(r),
                        }
                    }
                    let must_reject_everywhere = matches!(m, Mutation::TruncatePath { .. } | Mutation::ExtendPath | Mutation::SwapNodes { .. });
                    // a mutation may be the identity (position beyond the path, one ciphertext only)
                    let identity = stores::with_fork(|| {
                        let mut w3 = w.clone();
                        w3.commit(by, &CommitSpec::default()).ok().map(|g| {
                            let a = layout(&msg_bytes(&g.out.commit_message)).ok().and_then(|l| l.region("commit.path.nodes").map(|r| r.end - r.start));
                            let b = layout(&msg_bytes(&built.out.commit_message)).ok().and_then(|l| l.region("commit.path.nodes").map(|r| r.end - r.start));
                            (a, b)
                        })
                    });
                    let changed_len = identity.map(|(a, b)| a != b).unwrap_or(false);
                    if !accepted.is_empty() && must_reject_everywhere && (changed_len || matches!(m, Mutation::SwapNodes { .. })) {
                        // swapping is only a change when there are two path nodes
                        let effective = match m {
                            Mutation::SwapNodes { pos } => {
                                let n = layout(&msg_bytes(&built.out.commit_message)).is_ok();
                                n && pos == 0 && changed_len
                            }
                            _ => true,
                        };
                        if effective {
                            ctx.violation(
                                format!("structurally-invalid-commit-accepted|{}", format!("{m:?}").split([' ', '{']).next().unwrap_or("")),
                                format!("{:?} accepted a commit with {m:?} from {} ({shape})", accepted.iter().map(|r| w.parties[*r].name.clone()).collect::<Vec<_>>(), w.parties[by].name),
                            );
                        }
                    } else if !accepted.is_empty() {
                        ctx.outcome(format!("adversarial:{}:accepted-by-some", format!("{m:?}").split([' ', '{']).next().unwrap_or("")));
                    }
                    ctx.goal("adversarial-commit");
                    let _ = ledger_entry;
                });
                ctx.report.transitions += 1;
            }
        }
    }
}

pub fn meta(_tier: &str) -> Meta {
    Meta {
        level: "model_checking",
        rule: "items = every message kind of a scripted world with its pre-delivery world (key package, Welcomes, GroupInfo, exported tree, two application messages, two proposals, two competing commits, commit with add+PSK; public and encrypted handshake); per item and receiver: genuine delivery accepted and truthfully reported; every bit flip (quick: one bit per byte), every truncation (quick: every third length), every field splice with the partner item, replay into every other recorded epoch and into a second group of the same parties: never accepted, never a panic (a Welcome altered only inside another joiner's secrets must give the identical result); insider forgeries: a public proposal re-attributed to every other leaf and to leaves beyond the tree, re-signed with the forger's key and given a valid membership tag (hooks H6; the procedure is validated by reproducing the genuine message); adversarial committer (hook H7) in a dense and a blank-leaf 5-member tree, every committer x {truncate path to 0..3 nodes, extend, swap nodes, foreign node key, permuted / dropped ciphertexts at positions 0..3} x every receiver: never a panic; too short / too long paths rejected by everybody; insider forgeries of private messages (checks/c03x.rs): in a 3-member group with a blank leaf every member builds, from scratch, application PrivateMessages under the ratchet of every other member / another member's ratchet / the blank leaf / a leaf beyond the tree (generations 0, 1, 5; right and wrong header content type), with correct key, nonce, reuse guard, sender data and AAD but signed with its own key, delivered to every other member: never accepted, never a panic (the construction is validated by a control signed with the victim's real key, which must be accepted and attributed to the victim), and authentic messages with zero padding of several lengths (accepted) and with a non-zero padding byte (refused, RFC 9420 6.3.1), and application data sent as a PublicMessage with a genuine signature and membership tag (refused, RFC 9420 6.2); states = items, transitions = byte offsets + adversarial commits".into(),
        assumptions: {
            let mut a = default_assumptions();
            a.push("a node key unrelated to the path secrets, or permuted ciphertexts, can only be noticed by receivers below that node; for those mutations the check demands 'no panic' and records who accepts".into());
            a
        },
        bounds: bounds_json(&[("bit_flips", json!("all 8 bits per byte in thorough, 1 bit per byte in quick"))]),
        required_goals: vec!["field-splice", "insider-forgery", "insider-forging-procedure-validated", "adversarial-commit", "private-forging-procedure-validated", "insider-private-forgery", "non-zero-padding", "public-application-message"],
        min_outcomes: 6,
        workers: 16,
    }
}

pub fn run(ctx: &mut Ctx) {
    let mut shard_item = 0usize;
    let mut cfgs = vec![];
    for enc in [false, true] {
        cfgs.push(WorldCfg { encrypt_handshake: enc, tree_ext: false, padding: enc as u8, ..Default::default() });
    }
    if !ctx.quick() {
        for (suite, which) in [(2u16, Which::Rust), (3, Which::Rust), (1, Which::Ossl), (2, Which::Awslc), (7, Which::Ossl)] {
            for enc in [false, true] {
                cfgs.push(WorldCfg { suite, providers: vec![which], encrypt_handshake: enc, tree_ext: false, single_welcome: enc, ..Default::default() });
            }
        }
    }
    for cfg in cfgs {
        let items = script(cfg.clone(), b"verif-group");
        // the same scripted history by parties of the same names in a group with another id
        let second = script(cfg.clone(), b"verif-group-B");
        for i in 0..items.len() {
            let mine = ctx.mine(shard_item);
            shard_item += 1;
            if mine {
                sweep_item(&items, i, &second, ctx);
                if i % 4 == 0 {
                    ctx.sample(json!({"item": items[i].kind, "bytes": items[i].bytes.len(), "receivers": items[i].receivers}));
                }
            }
        }
    }
    adversarial_committer(ctx, &mut shard_item);
    // insider forgeries of private messages (checks/c03x.rs)
    super::c03x::run(ctx, &mut shard_item);
}

pub fn replay(ctx: &mut Ctx, _path: &[usize]) {
    println!("C03: re-running the adversarial-committer part and the sweep of shard 0/1");
    run(ctx);
}
