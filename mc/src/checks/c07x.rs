//! C07, joiner-centred cases that the history traversal does not produce.
//!
//! Part 1, mismatch matrix: a Welcome for another party, with the tree of another epoch /
//! another group / an altered tree, for a key package the joiner no longer holds, consumed a
//! second time after the joiner persisted, or altered; and an external commit built from the
//! previous epoch's GroupInfo. Each must be refused, leave the joiner's three stores as they
//! were (so that the right Welcome still works afterwards), and leave the members unchanged.
//!
//! Part 2, re-join with the same storage: a member writes to storage at any subset of its
//! epochs, is removed (processing its removal or not, writing afterwards or not), the group
//! moves on by 0..2 commits, and the same party -- keeping its group-state, key-package and PSK
//! stores -- comes back through a Welcome or an external commit. It must obtain the members'
//! state, be able to persist, follow the next commit, persist again, reload, send and commit.

use mls_rs::error::MlsError;
use mls_rs::group::ReceivedMessage;
use mls_rs::group::ExportedTree;
use mls_rs::MlsMessage;
use mls_rs_codec::{MlsDecode, MlsEncode};
use serde_json::json;

use crate::engine::{take_panic, Ctx};
use crate::oracles::{ledger_entry, tree_bytes};
use crate::stateq::{diff, diff_classes, effective};
use crate::stores;
use crate::world::*;

const A: usize = 0;
const B: usize = 1;
const C: usize = 2;
const D: usize = 3;
const E: usize = 4;

fn round(w: &mut World, by: usize, spec: CommitSpec) -> Result<Built, MlsError> {
    let b = w.commit(by, &spec)?;
    for p in w.members() {
        if p != by {
            w.process(p, &b.out.commit_message)?;
        }
    }
    w.apply(by)?;
    Ok(b)
}

fn tree_arg(w: &World, p: usize) -> Option<ExportedTree<'static>> {
    if w.cfg.tree_ext {
        None
    } else {
        Some(w.g(p).export_tree().into_owned())
    }
}

fn same_as_member(w: &World, joiner: usize, member: usize) -> Vec<&'static str> {
    let (a, b) = (ledger_entry(w, joiner), ledger_entry(w, member));
    let mut d = vec![];
    if a.context != b.context {
        d.push("group_context");
    }
    if a.roster != b.roster {
        d.push("roster");
    }
    if a.tree != b.tree {
        d.push("exported_tree");
    }
    if a.authenticator != b.authenticator {
        d.push("epoch_authenticator");
    }
    if a.exports != b.exports {
        d.push("exported_secret");
    }
    d
}

fn eff(w: &mut World, p: usize) -> crate::stateq::Eff {
    match w.run(|w| effective(w.g(p), p as u32)) {
        Ok(e) => e,
        Err(_) => crate::engine::machinery("C07: state capture panicked"),
    }
}

fn guarded(ctx: &mut Ctx, what: &str, f: impl FnOnce(&mut Ctx)) {
    let r = std::panic::catch_unwind(std::panic::AssertUnwindSafe(|| f(ctx)));
    if r.is_err() {
        let (loc, msg, lib) = take_panic();
        if lib {
            ctx.violation(format!("panic|{what}|{loc}"), msg);
        } else {
            crate::engine::machinery(&format!("harness panic in C07 {what} at {loc}: {msg}"));
        }
    }
}

// ------------------------------------------------------------------------------------------
// Part 1
// ------------------------------------------------------------------------------------------

struct Base {
    w: World,
    welcome: MlsMessage,
    /// exported tree of the epoch the Welcome is for
    tree_now: Vec<u8>,
    /// exported tree of the epoch before
    tree_before: Vec<u8>,
    /// store key of the key package the commit used
    used_kp: Vec<u8>,
}

fn matrix_base(cfg: WorldCfg) -> Base {
    let mut w = World::new(cfg, 5);
    let r = w.run(|w| {
        w.create(A)?;
        round(w, A, CommitSpec { props: vec![Prop::Add(B), Prop::Add(C)], ..Default::default() }).and_then(|b| {
            let t = tree_arg(w, A);
            w.join(B, &b.out.welcome_messages[0], t.clone())?;
            w.join(C, &b.out.welcome_messages[0], t)
        })?;
        round(w, B, CommitSpec::default())?;
        let tree_before = tree_bytes(w.g(A));
        let b = round(w, C, CommitSpec { props: vec![Prop::Add(D)], ..Default::default() })?;
        Ok::<_, MlsError>((b, tree_before))
    });
    let Ok(Ok((b, tree_before))) = r else { crate::engine::machinery("C07 matrix base world could not be built") };
    let used: Vec<Vec<u8>> = w.stores.get(&(D as u32)).unwrap().kps.keys().cloned().collect();
    if used.len() != 1 {
        crate::engine::machinery("C07 matrix: expected exactly one key package of D");
    }
    // a second key package of the same party (right party, not the one used)
    let r = w.run(|w| w.key_package(D));
    if !matches!(r, Ok(Ok(_))) {
        crate::engine::machinery("C07 matrix: second key package");
    }
    let tree_now = tree_bytes(w.g(A));
    Base { welcome: b.out.welcome_messages[0].clone(), tree_now, tree_before, used_kp: used[0].clone(), w }
}

fn tree_from(bytes: &[u8]) -> Option<ExportedTree<'static>> {
    ExportedTree::from_bytes(bytes).ok().map(|t| t.into_owned())
}

/// One refused join attempt: must be Err, stores untouched, no group.
fn refused_join(base: &Base, who: usize, name: &str, welcome: &MlsMessage, tree: Option<ExportedTree<'static>>, prep: impl FnOnce(&mut World), ctx: &mut Ctx) {
    let mut w = base.w.clone();
    prep(&mut w);
    ctx.cur_trail = vec![format!("matrix[{}]: {name}", w.cfg.label())];
    let before = w.stores.get(&(who as u32)).unwrap().contents();
    ctx.eval();
    let r = w.run(|w| w.join(who, welcome, tree));
    match r {
        Err(_) => {
            let (loc, msg, _) = take_panic();
            ctx.violation(format!("panic|matrix|{name}|{loc}"), msg);
            return;
        }
        Ok(Ok(())) => {
            ctx.violation(format!("mismatched-join-accepted|{name}"), format!("{} obtained a group from: {name}", w.parties[who].name));
            return;
        }
        Ok(Err(e)) => ctx.outcome(format!("matrix:{name}:{}", err_name(&e))),
    }
    let after = w.stores.get(&(who as u32)).unwrap().contents();
    if before != after {
        ctx.violation(format!("refused-join-changed-stores|{name}"), format!("the stores of {} changed although the join was refused ({name})", w.parties[who].name));
    }
    ctx.goal("matrix-refusal");
}

fn matrix(cfg: WorldCfg, ctx: &mut Ctx) {
    let base = matrix_base(cfg.clone());
    let tree_ext = cfg.tree_ext;
    let right_tree = || if tree_ext { None } else { tree_from(&base.tree_now) };
    // the genuine join works (sanity of the base) and yields the members' state
    {
        let mut w = base.w.clone();
        ctx.cur_trail = vec![format!("matrix[{}]: genuine join", cfg.label())];
        let r = w.run(|w| w.join(D, &base.welcome, right_tree()));
        match r {
            Ok(Ok(())) => {
                let d = same_as_member(&w, D, A);
                if !d.is_empty() {
                    ctx.violation(format!("joiner-differs|welcome|{}", d.join("+")), "the Welcome joiner's state differs from the members'");
                }
                ctx.outcome("matrix:genuine:ok");
            }
            other => crate::engine::machinery(&format!("C07 matrix: the genuine join fails: {:?}", other.map(|x| x.map_err(|e| err_name(&e))))),
        }
    }
    // (a) another party
    refused_join(&base, E, "welcome addressed to another party", &base.welcome, right_tree(), |w| {
        let _ = w.run(|w| w.key_package(E));
    }, ctx);
    // (b) tree of another epoch, altered tree, truncated tree (out-of-band delivery only)
    if !tree_ext {
        refused_join(&base, D, "tree of the previous epoch", &base.welcome, tree_from(&base.tree_before), |_| {}, ctx);
        let n = base.tree_now.len();
        let mut tried = 0;
        for pos in (0..n).step_by((n / 40).max(1)) {
            for bit in [0x01u8, 0x80] {
                let mut t = base.tree_now.clone();
                t[pos] ^= bit;
                if let Some(tree) = tree_from(&t) {
                    tried += 1;
                    refused_join(&base, D, "tree with one bit altered", &base.welcome, Some(tree), |_| {}, ctx);
                }
            }
        }
        ctx.extra("altered_trees_that_still_decode", tried);
        refused_join(&base, D, "no tree although the Welcome carries none", &base.welcome, None, |_| {}, ctx);
    } else {
        // an out-of-band tree that contradicts the extension: the extension is authoritative
        // (validate_tree_joiner ignores the argument when the GroupInfo carries a tree), so the
        // join may succeed -- but only with the members' state
        let mut w = base.w.clone();
        ctx.cur_trail = vec![format!("matrix[{}]: out-of-band tree of the previous epoch against the extension", cfg.label())];
        ctx.eval();
        match w.run(|w| w.join(D, &base.welcome, tree_from(&base.tree_before))) {
            Ok(Ok(())) => {
                let d = same_as_member(&w, D, A);
                if !d.is_empty() {
                    ctx.violation(format!("joiner-differs|contradicting-oob-tree|{}", d.join("+")), "a contradicting out-of-band tree changed the joiner's state");
                }
                ctx.outcome("matrix:contradicting-oob-tree:extension-wins");
            }
            Ok(Err(e)) => ctx.outcome(format!("matrix:contradicting-oob-tree:{}", err_name(&e))),
            Err(_) => {
                let (loc, msg, _) = take_panic();
                ctx.violation(format!("panic|matrix|contradicting oob tree|{loc}"), msg);
            }
        }
    }
    // (c) Welcome / tree of another group with the same parties
    {
        let mut w2 = World::new(cfg.clone(), 5);
        w2.group_id = b"verif-group-other".to_vec();
        let r = w2.run(|w| {
            w.create(A)?;
            let b = round(w, A, CommitSpec { props: vec![Prop::Add(B), Prop::Add(C)], ..Default::default() })?;
            let t = tree_arg(w, A);
            w.join(B, &b.out.welcome_messages[0], t.clone())?;
            w.join(C, &b.out.welcome_messages[0], t)?;
            round(w, B, CommitSpec::default())?;
            round(w, C, CommitSpec { props: vec![Prop::Add(D)], ..Default::default() })
        });
        let Ok(Ok(b2)) = r else { crate::engine::machinery("C07 matrix: second group") };
        let tree2 = tree_bytes(w2.g(A));
        // D of the first world does not hold the second world's key package
        refused_join(&base, D, "welcome of another group", &b2.out.welcome_messages[0], if tree_ext { None } else { tree_from(&tree2) }, |_| {}, ctx);
        if !tree_ext {
            refused_join(&base, D, "tree of another group", &base.welcome, tree_from(&tree2), |_| {}, ctx);
        }
    }
    // (d) the right party without the key package that was used
    let used = base.used_kp.clone();
    refused_join(&base, D, "joiner holds another key package of its own, not the one used", &base.welcome, right_tree(), move |w| {
        w.stores.get_mut(&(D as u32)).unwrap().kps.remove(&used);
    }, ctx);
    // (e) altered Welcome
    if let Ok(bytes) = base.welcome.mls_encode_to_vec() {
        let n = bytes.len();
        for pos in [n / 4, n / 2, n - 1] {
            let mut m = bytes.clone();
            m[pos] ^= 0x04;
            if let Ok(msg) = MlsMessage::mls_decode(&mut &*m) {
                refused_join(&base, D, "welcome with one bit altered", &msg, right_tree(), |_| {}, ctx);
            }
        }
    }
    // (f) after failed attempts the right Welcome still works; once persisted, it works no more
    {
        let mut w = base.w.clone();
        ctx.cur_trail = vec![format!("matrix[{}]: join after refused attempts, then a second time", cfg.label())];
        let wrong = tree_from(&base.tree_before);
        let r = w.run(|w| {
            let _ = w.join(D, &base.welcome, if tree_ext { None } else { wrong });
            w.join(D, &base.welcome, right_tree())?;
            // before persisting, the package is still there
            let still = stores::peek(D as u32, |s| s.kps.contains_key(&base.used_kp));
            w.gm(D).write_to_storage()?;
            let gone = stores::peek(D as u32, |s| !s.kps.contains_key(&base.used_kp));
            Ok::<_, MlsError>((still, gone))
        });
        match r {
            Ok(Ok((still, gone))) => {
                ctx.eval();
                if !still {
                    ctx.violation("key-package-gone-before-persist", "the used key package disappeared before write_to_storage");
                }
                if !gone {
                    ctx.violation("key-package-kept-after-persist", "the used key package is still stored after the joiner persisted its group");
                }
                let pre = eff(&mut w, D);
                ctx.eval();
                let r2 = w.run(|w| w.parties[D].client.join_group(right_tree(), &base.welcome, w.now()).map(|_| ()));
                match r2 {
                    Ok(Ok(())) => ctx.violation("welcome-consumed-twice", "the same Welcome produced a group a second time after the joiner persisted (key package used twice)"),
                    Ok(Err(e)) => {
                        ctx.outcome(format!("matrix:second-join:{}", err_name(&e)));
                        ctx.goal("matrix-second-join-refused");
                    }
                    Err(_) => {
                        let (loc, msg, _) = take_panic();
                        ctx.violation(format!("panic|matrix|second join|{loc}"), msg);
                    }
                }
                let post = eff(&mut w, D);
                let d = diff(&pre, &post, &[]);
                if !d.is_empty() {
                    ctx.violation(format!("refused-join-changed-group|{}", diff_classes(&d)), format!("the joiner's existing group changed by a refused second join: {d:?}"));
                }
            }
            Ok(Err(e)) => ctx.violation(format!("join-after-refused-attempts-fails|{}", err_name(&e)), format!("after a refused attempt the right Welcome no longer works: {e:?}")),
            Err(_) => {
                let (loc, msg, _) = take_panic();
                ctx.violation(format!("panic|matrix|join after refused|{loc}"), msg);
            }
        }
    }
    // (f2) the joiner's first persist meets a storage failure at each of its calls in turn and is
    //      retried: afterwards the used key package is gone and the Welcome works no more
    {
        let mut w0 = base.w.clone();
        let joined = w0.run(|w| w.join(D, &base.welcome, right_tree()));
        if matches!(joined, Ok(Ok(()))) {
            // number of storage calls of a fault-free persist
            let n = {
                let mut w = w0.clone();
                w.run(|w| {
                    stores::peek(D as u32, |s| s.reset_calls());
                    let _ = w.gm(D).write_to_storage();
                    stores::peek(D as u32, |s| s.calls.len())
                })
                .unwrap_or(0)
            };
            for k in 0..n {
                let mut w = w0.clone();
                ctx.cur_trail = vec![format!("matrix[{}]: first persist of the joiner, storage call {k} of {n} fails once, then retried", cfg.label())];
                let r = w.run(|w| {
                    stores::peek(D as u32, |s| {
                        s.reset_calls();
                        s.fail_calls.insert(k);
                    });
                    let first = w.gm(D).write_to_storage();
                    let failed = stores::peek(D as u32, |s| s.calls.iter().find(|c| c.failed).map(|c| format!("{}.{}", c.store, c.op)));
                    stores::peek(D as u32, |s| s.reset_calls());
                    let second = w.gm(D).write_to_storage();
                    let gone = stores::peek(D as u32, |s| !s.kps.contains_key(&base.used_kp));
                    let again = w.parties[D].client.join_group(right_tree(), &base.welcome, w.now()).map(|_| ());
                    (first.is_ok(), failed, second, gone, again)
                });
                ctx.eval();
                match r {
                    Ok((first_ok, failed, second, gone, again)) => {
                        let Some(fc) = failed else {
                            ctx.outcome("matrix:first-persist:fault-not-reached");
                            continue;
                        };
                        ctx.goal("matrix-first-persist-retried");
                        if first_ok {
                            ctx.violation(format!("persist-swallowed-storage-error|{fc}"), "write_to_storage returned Ok although a storage call failed");
                        }
                        if let Err(e) = second {
                            // the ratchet-independent retry defect of write_to_storage is C15's; here only the key package counts
                            ctx.outcome(format!("matrix:first-persist-retry:{}", err_name(&e)));
                            continue;
                        }
                        if !gone {
                            ctx.violation(format!("key-package-kept-after-retried-persist|{fc}"), format!("the joiner's first write_to_storage failed at {fc} and was retried successfully, yet the used key package is still stored"));
                        }
                        if again.is_ok() {
                            ctx.violation(format!("welcome-consumed-twice-after-retried-persist|{fc}"), format!("after a persist that failed at {fc} and was retried, the same Welcome produces a group again"));
                        }
                    }
                    Err(_) => {
                        let (loc, msg, _) = take_panic();
                        ctx.violation(format!("panic|matrix|first persist retried|{loc}"), msg);
                    }
                }
            }
        }
    }
    // (g) external commit built from the previous epoch's GroupInfo
    {
        let mut w = base.w.clone();
        ctx.cur_trail = vec![format!("matrix[{}]: external commit from a stale GroupInfo", cfg.label())];
        let r = w.run(|w| {
            let gi = w.g(A).group_info_message_allowing_ext_commit(true)?;
            round(w, B, CommitSpec::default())?;
            let mut b = w.parties[E].client.external_commit_builder()?;
            if let Some(t) = w.now() {
                b = b.commit_time(t);
            }
            let (_g, msg) = b.build(gi)?;
            Ok::<_, MlsError>(msg)
        });
        match r {
            Ok(Ok(msg)) => {
                for p in w.members() {
                    let pre = eff(&mut w, p);
                    ctx.eval();
                    let r = w.run(|w| w.process(p, &msg));
                    match r {
                        Ok(Ok(_)) => ctx.violation("stale-external-commit-accepted", format!("{} accepted an external commit built from the previous epoch's GroupInfo", w.parties[p].name)),
                        Ok(Err(e)) => {
                            ctx.outcome(format!("matrix:stale-external-commit:{}", err_name(&e)));
                            ctx.goal("matrix-stale-groupinfo");
                            let post = eff(&mut w, p);
                            let d = diff(&pre, &post, &[]);
                            if !d.is_empty() {
                                ctx.violation(format!("stale-external-commit-changed-member|{}", diff_classes(&d)), format!("{d:?}"));
                            }
                        }
                        Err(_) => {
                            let (loc, m, _) = take_panic();
                            ctx.violation(format!("panic|matrix|stale external commit|{loc}"), m);
                        }
                    }
                }
            }
            Ok(Err(e)) => ctx.outcome(format!("matrix:stale-external-commit-build:{}", err_name(&e))),
            Err(_) => {
                let (loc, m, _) = take_panic();
                ctx.violation(format!("panic|matrix|stale external commit build|{loc}"), m);
            }
        }
    }
    // (h) a last-resort key package survives the joiner's write and can be used again; an
    //     ordinary one cannot (shown in (f))
    {
        use mls_rs::extension::recommended::LastResortKeyPackageExt;
        use mls_rs::extension::MlsExtension;
        let mut w = base.w.clone();
        ctx.cur_trail = vec![format!("matrix[{}]: last-resort key package used for two groups", cfg.label())];
        let r = w.run(|w| {
            let ext: mls_rs::ExtensionList = vec![LastResortKeyPackageExt.into_extension().map_err(|e| MlsError::from(e))?].into();
            let now = w.now();
            let kp = w.parties[E].client.generate_key_package_message(ext, Default::default(), now)?;
            let stored_before: Vec<Vec<u8>> = stores::peek(E as u32, |s| s.kps.keys().cloned().collect());
            // first group: the base world's group
            let out = {
                let mut b = w.gm(A).commit_builder().add_member(kp.clone())?;
                if let Some(t) = now {
                    b = b.commit_time(t);
                }
                b.build()?
            };
            for p in w.members() {
                if p != A {
                    w.process(p, &out.commit_message)?;
                }
            }
            w.apply(A)?;
            let t = tree_arg(w, A);
            w.join(E, &out.welcome_messages[0], t)?;
            w.gm(E).write_to_storage()?;
            let still: bool = stores::peek(E as u32, |s| stored_before.iter().all(|k| s.kps.contains_key(k)));
            // second group, created by an outsider, reuses the same key package
            let (client2, _, _) = make_client(&w.cfg, 88, "another-creator", None);
            let mut g2 = client2.create_group_with_id(b"second-group".to_vec(), w.context_ext(None), Default::default(), now)?;
            let out2 = g2.commit_builder().add_member(kp)?.build()?;
            g2.apply_pending_commit()?;
            let tree2 = if w.cfg.tree_ext { None } else { Some(g2.export_tree().into_owned()) };
            let joined2 = w.parties[E].client.join_group(tree2, &out2.welcome_messages[0], now).map(|_| ());
            Ok::<_, MlsError>((still, joined2.map_err(|e| err_name(&e))))
        });
        ctx.eval();
        match r {
            Ok(Ok((still, joined2))) => {
                if !still {
                    ctx.violation("last-resort-key-package-deleted", "a key package marked last-resort was deleted when the joiner persisted its group");
                }
                match joined2 {
                    Ok(()) => {
                        ctx.outcome("matrix:last-resort:reused");
                        ctx.goal("matrix-last-resort");
                    }
                    Err(e) => ctx.violation(format!("last-resort-key-package-not-reusable|{e}"), "a last-resort key package could not be used for a second group after the first join was persisted"),
                }
            }
            Ok(Err(e)) => ctx.outcome(format!("matrix:last-resort:not-constructible:{}", err_name(&e))),
            Err(_) => {
                let (loc, m, _) = take_panic();
                ctx.violation(format!("panic|matrix|last resort|{loc}"), m);
            }
        }
    }
    ctx.extra("states", 1);
    ctx.report.traces += 1;
}

// ------------------------------------------------------------------------------------------
// Part 2
// ------------------------------------------------------------------------------------------

#[derive(Clone, Copy, Debug, PartialEq, Eq)]
enum Leave {
    /// never learns of its removal
    Unseen,
    /// processes the commit that removes it
    Seen,
    /// processes it and writes afterwards
    SeenWritten,
}

#[derive(Clone, Copy, Debug, PartialEq, Eq)]
enum Reentry {
    WelcomeFrom(usize),
    External,
}

#[derive(Clone, Copy, Debug, PartialEq, Eq)]
enum Next {
    Empty,
    AddD,
    RemoveC,
}

#[derive(Clone, Debug)]
struct Rejoin {
    retention: usize,
    tree_ext: bool,
    /// bit i: B writes after its i-th epoch as a member (0 = right after joining)
    writes: u8,
    leave: Leave,
    gap: usize,
    reentry: Reentry,
    next: Next,
}

fn rejoin_cases(quick: bool) -> Vec<Rejoin> {
    let mut v = vec![];
    for retention in if quick { vec![3] } else { vec![1, 3] } {
        for tree_ext in if quick { vec![true] } else { vec![true, false] } {
            for writes in 0..8u8 {
                for leave in [Leave::Unseen, Leave::Seen, Leave::SeenWritten] {
                    for gap in 0..3usize {
                        for reentry in [Reentry::WelcomeFrom(A), Reentry::WelcomeFrom(C), Reentry::External] {
                            for next in [Next::Empty, Next::AddD, Next::RemoveC] {
                                v.push(Rejoin { retention, tree_ext, writes, leave, gap, reentry, next });
                            }
                        }
                    }
                }
            }
        }
    }
    v
}

fn step<T>(ctx: &mut Ctx, stale: bool, name: &str, r: std::thread::Result<Result<T, MlsError>>) -> Option<T> {
    ctx.eval();
    let cls = if stale { "stale-records" } else { "no-stale-records" };
    match r {
        Ok(Ok(t)) => {
            ctx.outcome(format!("rejoin:{name}:ok"));
            Some(t)
        }
        Ok(Err(e)) => {
            ctx.violation(format!("rejoin-same-storage|{name}|{}|{cls}", err_name(&e)), format!("a re-joiner that kept its stores fails at '{name}': {e:?}"));
            None
        }
        Err(_) => {
            let (loc, msg, _) = take_panic();
            ctx.violation(format!("panic|rejoin|{name}|{loc}"), msg);
            None
        }
    }
}

fn rejoin(c: &Rejoin, ctx: &mut Ctx) {
    ctx.cur_trail = vec![format!("{c:?}")];
    let cfg = WorldCfg { retention: c.retention, tree_ext: c.tree_ext, keep_stale_store: true, ..Default::default() };
    let mut w = World::new(cfg, 5);
    // first membership
    let r = w.run(|w| {
        w.create(A)?;
        let b = round(w, A, CommitSpec { props: vec![Prop::Add(B), Prop::Add(C)], ..Default::default() })?;
        let t = tree_arg(w, A);
        w.join(B, &b.out.welcome_messages[0], t.clone())?;
        w.join(C, &b.out.welcome_messages[0], t)?;
        for i in 0..3 {
            if c.writes & (1 << i) != 0 {
                w.gm(B).write_to_storage()?;
            }
            if i < 2 {
                round(w, if i == 0 { C } else { A }, CommitSpec::default())?;
            }
        }
        // removal of B by A
        let rm = w.commit(A, &CommitSpec { props: vec![Prop::Remove(B)], ..Default::default() })?;
        w.process(C, &rm.out.commit_message)?;
        w.apply(A)?;
        if c.leave != Leave::Unseen {
            match w.process(B, &rm.out.commit_message)? {
                ReceivedMessage::Commit(_) => {}
                _ => return Err(MlsError::UnexpectedMessageType),
            }
            if c.leave == Leave::SeenWritten {
                w.gm(B).write_to_storage()?;
            }
        }
        w.parties[B].group = None;
        for i in 0..c.gap {
            round(w, if i == 0 { C } else { A }, CommitSpec::default())?;
        }
        Ok::<(), MlsError>(())
    });
    if !matches!(r, Ok(Ok(()))) {
        crate::engine::machinery(&format!("C07 rejoin: the first membership could not be scripted: {:?}", r.map(|x| x.map_err(|e| err_name(&e)))));
    }
    let gid = w.group_id.clone();
    let stale = w.stores.get(&(B as u32)).unwrap().groups.get(&gid).map(|g| !g.epochs.is_empty() || !g.state.is_empty()).unwrap_or(false);
    if stale {
        ctx.goal("rejoin-with-stale-records");
    } else {
        ctx.goal("rejoin-without-stale-records");
    }
    // re-entry
    match c.reentry {
        Reentry::WelcomeFrom(by) => {
            let r = w.run(|w| round(w, by, CommitSpec { props: vec![Prop::Add(B)], ..Default::default() }));
            let Ok(Ok(b)) = r else { crate::engine::machinery("C07 rejoin: re-adding commit") };
            let t = tree_arg(&w, A);
            let r = w.run(|w| w.join(B, &b.out.welcome_messages[0], t));
            if step(ctx, stale, "join", r).is_none() {
                return;
            }
        }
        Reentry::External => {
            let r = w.run(|w| {
                let gi = w.g(A).group_info_message_allowing_ext_commit(true)?;
                let mut b = w.parties[B].client.external_commit_builder()?;
                if !w.cfg.tree_ext {
                    b = b.with_tree_data(w.g(A).export_tree().into_owned());
                }
                if let Some(t) = w.now() {
                    b = b.commit_time(t);
                }
                let (g, msg) = b.build(gi)?;
                Ok::<_, MlsError>((g, msg))
            });
            let Some((g, msg)) = step(ctx, stale, "external-commit-build", r) else { return };
            for p in w.members() {
                let r = w.run(|w| w.process(p, &msg).map(|_| ()));
                if step(ctx, stale, "members-process-external-commit", r).is_none() {
                    return;
                }
            }
            w.parties[B].group = Some(g);
        }
    }
    let d = same_as_member(&w, B, A);
    ctx.eval();
    if !d.is_empty() {
        ctx.violation(format!("joiner-differs|rejoin|{}", d.join("+")), format!("the re-joiner's state differs from the members' in {d:?}"));
        return;
    }
    // persist, follow the next commit, persist, reload, send, commit
    let r = w.run(|w| w.gm(B).write_to_storage());
    if step(ctx, stale, "first-write", r).is_none() {
        return;
    }
    let spec = match c.next {
        Next::Empty => CommitSpec::default(),
        Next::AddD => CommitSpec { props: vec![Prop::Add(D)], ..Default::default() },
        Next::RemoveC => CommitSpec { props: vec![Prop::Remove(C)], ..Default::default() },
    };
    let r = w.run(|w| {
        let b = w.commit(A, &spec)?;
        for p in w.members() {
            if p != A && p != B {
                w.process(p, &b.out.commit_message)?;
            }
        }
        w.apply(A)?;
        if c.next == Next::RemoveC {
            w.parties[C].group = None;
        }
        Ok::<_, MlsError>(b.out.commit_message)
    });
    let Ok(Ok(commit)) = r else { crate::engine::machinery("C07 rejoin: next commit") };
    let r = w.run(|w| w.process(B, &commit).map(|_| ()));
    if step(ctx, stale, "process-next-commit", r).is_none() {
        return;
    }
    let d = same_as_member(&w, B, A);
    ctx.eval();
    if !d.is_empty() {
        ctx.violation(format!("joiner-differs|rejoin-next-epoch|{}", d.join("+")), format!("after the next commit the re-joiner differs from the members in {d:?}"));
    }
    let r = w.run(|w| w.gm(B).write_to_storage());
    if step(ctx, stale, "second-write", r).is_none() {
        return;
    }
    let r = w.run(|w| w.parties[B].client.load_group(&gid));
    if let Some(loaded) = step(ctx, stale, "reload", r) {
        let a = eff(&mut w, B);
        let b = match w.run(|_| effective(&loaded, B as u32)) {
            Ok(e) => e,
            Err(_) => crate::engine::machinery("C07: state capture panicked"),
        };
        // the key-package removal marker is never cleared in a live group (a repeated no-op
        // delete) and is not part of a stored snapshot
        let d = diff(&a, &b, &["pending_key_package_removal"]);
        ctx.eval();
        if !d.is_empty() {
            ctx.violation(format!("rejoin-reload-differs|{}", diff_classes(&d)), format!("{d:?}"));
        }
    }
    // the prior epoch (the one B joined in) must be the one B can still read late traffic of
    let r = w.run(|w| {
        let m = w.send(B, b"hello again", b"")?;
        match w.process(A, &m)? {
            ReceivedMessage::ApplicationMessage(d) if d.data() == b"hello again" => Ok(()),
            _ => Err(MlsError::UnexpectedMessageType),
        }
    });
    step(ctx, stale, "send-to-members", r);
    let r = w.run(|w| {
        let b = w.commit(B, &CommitSpec::default())?;
        for p in w.members() {
            if p != B {
                w.process(p, &b.out.commit_message)?;
            }
        }
        w.apply(B)?;
        Ok::<(), MlsError>(())
    });
    step(ctx, stale, "commit-accepted-by-members", r);
    ctx.extra("states", 1);
    ctx.report.traces += 1;
}

// ------------------------------------------------------------------------------------------
// Part 3: the shipped key-package stores (in-memory, SQLite) against a map
// ------------------------------------------------------------------------------------------

/// insert k1 / insert k2 / insert k1 with other data / get k1 / get k2 / delete k1 / delete k2
const KP_OPS: usize = 7;

fn kp_store_sequences(first: usize, depth: usize, ctx: &mut Ctx) {
    use mls_rs::storage_provider::in_memory::InMemoryKeyPackageStorage;
    use mls_rs_core::key_package::{KeyPackageData, KeyPackageStorage};
    use mls_rs_provider_sqlite::connection_strategy::MemoryStrategy;
    use mls_rs_provider_sqlite::SqLiteDataStorageEngine;
    let data = |v: u8| KeyPackageData::new(vec![v; 40], vec![v; 32].into(), vec![v ^ 0xff; 32].into(), 1_900_000_000 + v as u64);
    let ids: [&[u8]; 2] = [b"key-package-ref-1", b"key-package-ref-2"];
    // enumerate all sequences of length `depth` that start with `first`
    let mut seq = vec![first];
    loop {
        // run the sequence from scratch on the three stores
        let mut mem = InMemoryKeyPackageStorage::new();
        let mut sql = match SqLiteDataStorageEngine::new(MemoryStrategy).and_then(|e| e.key_package_storage()) {
            Ok(s) => s,
            Err(_) => crate::engine::machinery("C07: sqlite key package storage"),
        };
        let mut model: std::collections::BTreeMap<Vec<u8>, KeyPackageData> = Default::default();
        ctx.cur_trail = vec![format!("key-package store operations {seq:?}")];
        for (i, &op) in seq.iter().enumerate() {
            ctx.eval();
            match op {
                0 | 1 | 2 => {
                    let (id, d) = match op {
                        0 => (ids[0], data(1)),
                        1 => (ids[1], data(2)),
                        _ => (ids[0], data(3)),
                    };
                    // An id is the hash of a freshly generated key package: the library never
                    // inserts an id that is already stored. (Observed, outside the listed
                    // properties: the in-memory store would overwrite, the SQLite store refuses.)
                    if model.contains_key(id) {
                        ctx.outcome("kp-store:insert-of-stored-id(skipped)");
                        continue;
                    }
                    let a = KeyPackageStorage::insert(&mut mem, id.to_vec(), d.clone()).is_ok();
                    let b = KeyPackageStorage::insert(&mut sql, id.to_vec(), d.clone()).is_ok();
                    model.insert(id.to_vec(), d);
                    if !a || !b {
                        ctx.violation(format!("key-package-store-insert-failed|mem={a} sqlite={b}"), format!("operation {i} of {seq:?}"));
                    }
                }
                3 | 4 => {
                    let id = ids[op - 3];
                    let a = KeyPackageStorage::get(&mem, id).ok().flatten();
                    let b = KeyPackageStorage::get(&sql, id).ok().flatten();
                    let m = model.get(id).cloned();
                    if a != m || b != m {
                        ctx.violation(
                            format!("key-package-store-get-differs|mem={} sqlite={} model={}", a.is_some(), b.is_some(), m.is_some()),
                            format!("operation {i} of {seq:?}: in-memory, SQLite and the map disagree on get"),
                        );
                    } else {
                        ctx.outcome(if m.is_some() { "kp-store:get:some" } else { "kp-store:get:none" });
                    }
                }
                _ => {
                    let id = ids[op - 5];
                    let a = KeyPackageStorage::delete(&mut mem, id).is_ok();
                    let b = KeyPackageStorage::delete(&mut sql, id).is_ok();
                    model.remove(id);
                    if !a || !b {
                        ctx.violation(format!("key-package-store-delete-failed|mem={a} sqlite={b}"), format!("operation {i} of {seq:?}"));
                    }
                }
            }
        }
        // final contents
        for id in ids {
            let (a, b, m) = (KeyPackageStorage::get(&mem, id).ok().flatten(), KeyPackageStorage::get(&sql, id).ok().flatten(), model.get(id).cloned());
            if a != m || b != m {
                ctx.violation("key-package-store-final-contents-differ", format!("after {seq:?}"));
            }
        }
        if mem.key_packages().len() != model.len() || sql.count().ok() != Some(model.len()) {
            ctx.violation("key-package-store-count-differs", format!("after {seq:?}: in-memory {} / sqlite {:?} / map {}", mem.key_packages().len(), sql.count().ok(), model.len()));
        }
        ctx.report.traces += 1;
        ctx.report.transitions += seq.len() as u64;
        ctx.goal("key-package-store-sequences");
        // next sequence (odometer over positions 1..), all lengths 1..=depth
        if seq.len() < depth {
            seq.push(0);
            continue;
        }
        loop {
            if seq.len() == 1 {
                return;
            }
            let last = seq.len() - 1;
            if seq[last] + 1 < KP_OPS {
                seq[last] += 1;
                break;
            }
            seq.pop();
        }
    }
}

pub fn run(ctx: &mut Ctx) {
    let quick = ctx.quick();
    let mut item = 1000;
    for tree_ext in [true, false] {
        for encrypt_handshake in [false, true] {
            if ctx.mine(item) {
                let cfg = WorldCfg { tree_ext, encrypt_handshake, ..Default::default() };
                guarded(ctx, "matrix", |ctx| matrix(cfg, ctx));
            }
            item += 1;
        }
    }
    for c in rejoin_cases(quick) {
        if ctx.mine(item) {
            guarded(ctx, "rejoin", |ctx| rejoin(&c, ctx));
        }
        item += 1;
    }
    // the shipped key-package stores answer like a map, for every operation sequence
    let depth = if quick { 4 } else { 6 };
    for first in 0..KP_OPS {
        if ctx.mine(item) {
            guarded(ctx, "key-package-stores", |ctx| kp_store_sequences(first, depth, ctx));
        }
        item += 1;
    }
    if ctx.shard.0 == 0 {
        ctx.sample(json!({"matrix": "welcome + tree of the previous epoch -> refused, stores unchanged, right tree still works"}));
        ctx.sample(json!({"rejoin": {"writes": "0b101", "leave": "SeenWritten", "gap": 1, "reentry": "WelcomeFrom(C)", "next": "AddD"}}));
    }
}
