//! C16: an external observer tracks exactly the members' public state.
//!
//! Runs as a monitor on the history exploration (public handshake messages, group context
//! with an ExternalSendersExt): observers are created from a GroupInfo at every epoch with
//! every `max_epoch_jitter` setting, fed every commit and proposal, snapshotted and reloaded,
//! shown ciphertexts of every retained age, corrupted and replayed commits, and one of them
//! issues external Add / Remove proposals that the members must accept and commit.

use mls_rs::external_client::builder::{ExternalBaseConfig, ExternalClientBuilder, WithCryptoProvider, WithIdentityProvider};
use mls_rs::external_client::{ExternalClient, ExternalGroup, ExternalReceivedMessage};
use mls_rs::group::proposal::ProposalType;
use mls_rs::MlsMessage;
use mls_rs_codec::MlsEncode;
use mls_rs_core::extension::ExtensionType;

use super::history::HState;
use crate::engine::{take_panic, Ctx};
use crate::oracles::{msg_bytes, tree_bytes};
use crate::providers::{DynProvider, Which};
use crate::reference::framing::layout;
use crate::world::*;

pub type ExtCfg = WithIdentityProvider<HIdentity, WithCryptoProvider<DynProvider, ExternalBaseConfig>>;
pub type Obs = ExternalGroup<ExtCfg>;

#[derive(Clone)]
pub struct Observer {
    pub g: Obs,
    pub jitter: Option<u64>,
    pub born: u64,
    /// created after a proposal of the current epoch was sent: it cannot resolve a reference to it
    pub missed_proposal: bool,
}

#[derive(Clone, Default)]
pub struct ObsState {
    pub observers: Vec<Observer>,
    /// application ciphertexts of past and current epochs: (epoch, message)
    pub apps: Vec<(u64, MlsMessage)>,
    pub proposals_this_epoch: usize,
    /// an observer built with cache_proposals(false): the application keeps the proposals it
    /// reported (`ProposalMessageDescription::cached_proposal`) and re-inserts them with
    /// `insert_proposal` before the next commit (the stateless-server usage)
    pub stateless: Option<Obs>,
    pub stored: Vec<Vec<u8>>,
}

fn client(w: &World, jitter: Option<u64>) -> ExternalClient<ExtCfg> {
    let mut b = ExternalClientBuilder::new()
        .crypto_provider(DynProvider::new(Which::Rust, 901))
        .identity_provider(HIdentity { party: 901 })
        .extension_type(ExtensionType::new(CUSTOM_EXT))
        .custom_proposal_types(Some(ProposalType::new(CUSTOM_PROP)));
    if let Some((sk, id)) = &w.ext_signer {
        b = b.signer(sk.clone(), id.clone());
    }
    if let Some(j) = jitter {
        b = b.max_epoch_jitter(j);
    }
    b.build()
}

fn jitters(epoch: u64) -> Vec<Option<u64>> {
    let mut v = vec![None, Some(0), Some(1), Some(epoch.saturating_sub(1)), Some(epoch), Some(epoch + 1), Some(u64::MAX)];
    v.dedup();
    let mut out: Vec<Option<u64>> = vec![];
    for j in v {
        if !out.contains(&j) {
            out.push(j);
        }
    }
    out
}

/// New observers at the current epoch, one per jitter setting.
pub fn spawn(s: &mut HState, ctx: &mut Ctx) {
    spawn_some(s, false, ctx)
}

/// `late`: a single observer that starts in the middle of an epoch, after proposals were sent.
pub fn spawn_some(s: &mut HState, late: bool, ctx: &mut Ctx) {
    let w = &s.w;
    let Some(&m) = w.members().first() else { return };
    let g = w.g(m);
    let Ok(gi) = g.group_info_message(false) else { return };
    let epoch = g.current_epoch();
    if late && s.obs.observers.iter().any(|o| o.missed_proposal) {
        return;
    }
    for j in if late { vec![None] } else { jitters(epoch) } {
        ctx.eval();
        match client(w, j).observe_group(gi.clone(), Some(g.export_tree()), w.now()) {
            Ok(o) => s.obs.observers.push(Observer { g: o, jitter: j, born: epoch, missed_proposal: s.obs.proposals_this_epoch > 0 }),
            Err(e) => ctx.violation_for("C16", format!("observe_group-failed|{}", err_name(&e)), format!("an observer cannot start from the members' GroupInfo + tree at epoch {epoch}: {e:?}")),
        }
    }
    if s.obs.stateless.is_none() && s.obs.proposals_this_epoch == 0 && !late {
        let mut b = ExternalClientBuilder::new()
            .crypto_provider(DynProvider::new(Which::Rust, 902))
            .identity_provider(HIdentity { party: 902 })
            .extension_type(ExtensionType::new(CUSTOM_EXT))
            .custom_proposal_types(Some(ProposalType::new(CUSTOM_PROP)))
            .cache_proposals(false);
        if let Some((sk, id)) = &w.ext_signer {
            b = b.signer(sk.clone(), id.clone());
        }
        if let Ok(o) = b.build().observe_group(gi.clone(), Some(g.export_tree()), w.now()) {
            s.obs.stateless = Some(o);
        }
    }
    // bound the population: every jitter for the two youngest birth epochs, one observer for older ones
    let newest: Vec<u64> = {
        let mut b: Vec<u64> = s.obs.observers.iter().map(|o| o.born).collect();
        b.sort();
        b.dedup();
        b.into_iter().rev().take(2).collect()
    };
    s.obs.observers.retain(|o| newest.contains(&o.born) || o.jitter.is_none());
    // the external-sender role stays with the oldest unset-jitter observer that saw everything
    s.obs.observers.sort_by_key(|o| (o.missed_proposal, o.born));
}

fn guarded<R>(f: impl FnOnce() -> R) -> Result<R, (String, String)> {
    match std::panic::catch_unwind(std::panic::AssertUnwindSafe(f)) {
        Ok(r) => Ok(r),
        Err(_) => {
            let (loc, msg, lib) = take_panic();
            if !lib {
                crate::engine::machinery(&format!("harness panic at {loc}: {msg}"));
            }
            Err((loc, msg))
        }
    }
}

fn compare(w: &World, o: &Observer, ctx: &mut Ctx) {
    let Some(&m) = w.members().first() else { return };
    let g = w.g(m);
    ctx.eval();
    let mut diffs = vec![];
    if o.g.group_context() != g.context() {
        diffs.push("context");
    }
    if o.g.export_tree().ok() != Some(tree_bytes(g)) {
        diffs.push("tree");
    }
    let ro: Vec<_> = o.g.roster().members().into_iter().map(|x| (x.index, x.signing_identity)).collect();
    let rm: Vec<_> = g.roster().members().into_iter().map(|x| (x.index, x.signing_identity)).collect();
    if ro != rm {
        diffs.push("roster");
    }
    if diffs.is_empty() {
        ctx.outcome("observer:equals-members");
    } else {
        ctx.violation_for("C16", format!("observer-state-differs|{}", diffs.join("+")), format!("observer (started at epoch {}, jitter {:?}) differs from the members at epoch {} in {diffs:?}", o.born, o.jitter, g.current_epoch()));
    }
}

/// A commit accepted by the members is shown to every observer.
pub fn on_commit(s: &mut HState, commit: &MlsMessage, had_cached_refs: bool, ctx: &mut Ctx) {
    let now = time(s.w.clock);
    let bytes = msg_bytes(commit);
    // corrupted copy first: must be refused on grounds an observer can check
    let bad = layout(&bytes).ok().and_then(|l| l.region("signature").map(|r| r.end - 1)).and_then(|off| {
        let mut b = bytes.clone();
        b[off] ^= 0x01;
        MlsMessage::from_bytes(&b).ok()
    });
    let mut keep = vec![];
    for mut o in std::mem::take(&mut s.obs.observers) {
        if let Some(bad) = &bad {
            let mut o2 = o.clone();
            ctx.eval();
            match guarded(|| o2.g.process_incoming_message_with_time(bad.clone(), now)) {
                Ok(Err(_)) => ctx.outcome("observer:rejects-flipped-signature"),
                Ok(Ok(_)) => ctx.violation_for("C16", "observer-accepts-flipped-signature", "an observer accepted a commit whose signature has one bit flipped"),
                Err((loc, msg)) => ctx.violation_for("C16", format!("observer-panic|{loc}"), msg),
            }
        }
        ctx.eval();
        let expect_missing = o.missed_proposal && had_cached_refs;
        match guarded(|| o.g.process_incoming_message_with_time(commit.clone(), now)) {
            Ok(Ok(ExternalReceivedMessage::Commit(_))) => {
                ctx.outcome("observer:accepts-commit");
                compare(&s.w, &o, ctx);
                // replay into the next epoch: wrong epoch
                let mut o2 = o.clone();
                match guarded(|| o2.g.process_incoming_message_with_time(commit.clone(), now)) {
                    Ok(Err(_)) => ctx.outcome("observer:rejects-replayed-commit"),
                    Ok(Ok(_)) => ctx.violation_for("C16", "observer-accepts-replayed-commit", "an observer accepted the same commit a second time (epoch already left)"),
                    Err((loc, msg)) => ctx.violation_for("C16", format!("observer-panic|{loc}"), msg),
                }
                o.missed_proposal = false;
                keep.push(o);
            }
            Ok(Ok(_)) => ctx.violation_for("C16", "observer-commit-wrong-kind", "commit reported as another kind"),
            Ok(Err(e)) => {
                if expect_missing {
                    // it never saw a proposal the commit references: refusing is the only right answer
                    ctx.outcome(format!("observer:missing-proposal-ref->{}", err_name(&e)));
                    ctx.goal("observer-lacks-referenced-proposal");
                } else {
                    ctx.violation_for("C16", format!("observer-rejects-accepted-commit|{}", err_name(&e)), format!("observer (started at epoch {}, jitter {:?}) rejects a commit the members accepted: {e:?}", o.born, o.jitter));
                }
            }
            Err((loc, msg)) => ctx.violation_for("C16", format!("observer-panic|{loc}"), msg),
        }
    }
    s.obs.observers = keep;
    s.obs.proposals_this_epoch = 0;
    if let Some(mut o) = s.obs.stateless.take() {
        let had = !s.obs.stored.is_empty();
        for b in std::mem::take(&mut s.obs.stored) {
            match mls_rs::group::CachedProposal::from_bytes(&b) {
                Ok(cp) => o.insert_proposal(cp),
                Err(e) => ctx.violation_for("C16", "cached-proposal-decode-failed", format!("{e:?}")),
            }
        }
        ctx.eval();
        match guarded(|| o.process_incoming_message_with_time(commit.clone(), now)) {
            Ok(Ok(ExternalReceivedMessage::Commit(_))) => {
                if had {
                    ctx.goal("stateless-observer-follows-by-reference-commit");
                }
                let obs = Observer { g: o.clone(), jitter: None, born: 0, missed_proposal: false };
                compare(&s.w, &obs, ctx);
                s.obs.stateless = Some(o);
            }
            Ok(Ok(_)) => ctx.violation_for("C16", "observer-commit-wrong-kind", "commit reported as another kind (stateless observer)"),
            Ok(Err(e)) => ctx.violation_for(
                "C16",
                format!("stateless-observer-rejects-accepted-commit|{}", err_name(&e)),
                format!("an observer that keeps proposals outside (cache_proposals(false), cached_proposal() / insert_proposal) rejects a commit the members accepted: {e:?}"),
            ),
            Err((loc, msg)) => ctx.violation_for("C16", format!("observer-panic|{loc}"), msg),
        }
    }
    // snapshot -> load for every other observer
    for (i, o) in s.obs.observers.iter_mut().enumerate() {
        if i % 2 == 0 {
            ctx.eval();
            let snap = o.g.snapshot();
            let bytes = snap.mls_encode_to_vec().unwrap_or_default();
            let _ = bytes;
            match client(&s.w, o.jitter).load_group(snap) {
                Ok(g2) => {
                    if g2.group_context() != o.g.group_context() || g2.export_tree().ok() != o.g.export_tree().ok() {
                        ctx.violation_for("C16", "observer-reload-differs", "an observer restored from its snapshot differs from the original");
                    }
                    o.g = g2;
                    ctx.goal("observer-reloaded");
                }
                Err(e) => ctx.violation_for("C16", format!("observer-reload-failed|{}", err_name(&e)), format!("{e:?}")),
            }
        }
    }
    // fresh traffic of the new epoch, then every kept ciphertext to every observer
    if let Some(&m) = s.w.members().first() {
        let mut g = s.w.g(m).clone();
        if let Ok(app) = g.encrypt_application_message(b"ciphertext for observers", vec![]) {
            s.obs.apps.push((g.current_epoch(), app));
            if s.obs.apps.len() > 5 {
                s.obs.apps.remove(0);
            }
        }
    }
    ciphertext_window(s, ctx);
    spawn(s, ctx);
}

pub fn ciphertext_window(s: &HState, ctx: &mut Ctx) {
    let now = time(s.w.clock);
    for o in &s.obs.observers {
        let cur = o.g.group_context().epoch;
        for (e, msg) in &s.obs.apps {
            if *e > cur {
                continue;
            }
            let inside = match o.jitter {
                None => true,
                Some(j) => *e >= cur.saturating_sub(j),
            };
            let mut o2 = o.clone();
            ctx.eval();
            match guarded(|| o2.g.process_incoming_message_with_time(msg.clone(), now)) {
                Ok(Ok(ExternalReceivedMessage::Ciphertext(_))) => {
                    if inside {
                        ctx.outcome("observer:ciphertext-let-through");
                    } else {
                        ctx.violation_for("C16", "observer-lets-through-ciphertext-outside-window", format!("jitter {:?} at epoch {cur}: a ciphertext of epoch {e} was let through", o.jitter));
                    }
                }
                Ok(Ok(_)) => ctx.violation_for("C16", "observer-ciphertext-wrong-kind", "ciphertext reported as another kind"),
                Ok(Err(err)) => {
                    if inside {
                        ctx.violation_for("C16", format!("observer-refuses-ciphertext-inside-window|{}", err_name(&err)), format!("jitter {:?} at epoch {cur}: a ciphertext of epoch {e} is inside the window but was refused: {err:?}", o.jitter));
                    } else {
                        ctx.outcome("observer:ciphertext-outside-window-refused");
                    }
                }
                Err((loc, m)) => {
                    let over = o.jitter.map(|j| j > cur).unwrap_or(false);
                    ctx.violation_for("C16", format!("observer-panic|{loc}"), format!("processing a ciphertext of epoch {e} panicked at epoch {cur} with max_epoch_jitter {:?} (jitter > epoch: {over}): {m}", o.jitter));
                }
            }
        }
    }
}

fn feed_stateless(s: &mut HState, proposal: &MlsMessage, ctx: &mut Ctx) {
    let now = time(s.w.clock);
    if let Some(o) = s.obs.stateless.as_mut() {
        ctx.eval();
        match guarded(|| o.process_incoming_message_with_time(proposal.clone(), now)) {
            Ok(Ok(ExternalReceivedMessage::Proposal(d))) => {
                match d.cached_proposal().to_bytes() {
                    Ok(b) => s.obs.stored.push(b),
                    Err(e) => ctx.violation_for("C16", "cached-proposal-encode-failed", format!("{e:?}")),
                }
                ctx.goal("stateless-observer-stores-proposal");
            }
            Ok(Ok(_)) => ctx.violation_for("C16", "observer-proposal-wrong-kind", "proposal reported as another kind (stateless observer)"),
            Ok(Err(e)) => ctx.violation_for("C16", format!("stateless-observer-rejects-accepted-proposal|{}", err_name(&e)), format!("{e:?}")),
            Err((loc, msg)) => ctx.violation_for("C16", format!("observer-panic|{loc}"), msg),
        }
    }
}

/// An outsider asks to be added with a new-member proposal (`Client::external_add_proposal`);
/// members and observers must accept it, and the commit that references it must be followed
/// by everybody, including the observer that keeps its proposals outside.
pub fn new_member_proposal(s: &mut HState, ctx: &mut Ctx) -> Option<MlsMessage> {
    let o = *s.w.outsiders().first()?;
    let members = s.w.members();
    let gi = s.w.g(*members.first()?).group_info_message(true).ok()?;
    let now = s.w.now();
    let msg = match s.w.parties[o].client.external_add_proposal(&gi, None, vec![], Default::default(), Default::default(), now) {
        Ok(m) => m,
        Err(e) => {
            ctx.outcome(format!("new-member-proposal-err:{}", err_name(&e)));
            return None;
        }
    };
    let mut kp = None;
    for p in members {
        ctx.eval();
        match s.w.process(p, &msg) {
            Ok(mls_rs::group::ReceivedMessage::Proposal(d)) => {
                if let mls_rs::group::proposal::Proposal::Add(a) = &d.proposal {
                    let mut b = vec![0u8, 1, 0, 5];
                    b.extend(a.key_package().mls_encode_to_vec().unwrap_or_default());
                    kp = MlsMessage::from_bytes(&b).ok();
                }
                ctx.outcome("member:accepts-new-member-proposal");
            }
            Ok(_) => ctx.violation_for("C16", "proposal-reported-as-other-kind", "a new-member proposal was reported as another message kind"),
            Err(e) => {
                ctx.outcome(format!("member-rejects-new-member-proposal:{}", err_name(&e)));
                return None;
            }
        }
    }
    s.pending_adds.push((o, kp?));
    ctx.goal("new-member-proposal");
    on_proposal(s, &msg, ctx);
    Some(msg)
}

/// A proposal the members accepted is shown to every observer.
pub fn on_proposal(s: &mut HState, proposal: &MlsMessage, ctx: &mut Ctx) {
    let now = time(s.w.clock);
    s.obs.proposals_this_epoch += 1;
    for o in s.obs.observers.iter_mut() {
        ctx.eval();
        match guarded(|| o.g.process_incoming_message_with_time(proposal.clone(), now)) {
            Ok(Ok(ExternalReceivedMessage::Proposal(_))) => ctx.outcome("observer:accepts-proposal"),
            Ok(Ok(_)) => ctx.violation_for("C16", "observer-proposal-wrong-kind", "proposal reported as another kind"),
            Ok(Err(e)) => ctx.violation_for("C16", format!("observer-rejects-accepted-proposal|{}", err_name(&e)), format!("observer (started at epoch {}, jitter {:?}) rejects a proposal the members accepted: {e:?}", o.born, o.jitter)),
            Err((loc, msg)) => ctx.violation_for("C16", format!("observer-panic|{loc}"), msg),
        }
    }
    feed_stateless(s, proposal, ctx);
    // every third observer is stored and restored while it holds the cached proposal: the
    // commit that references it must still be accepted by the restored instance (on_commit)
    for (i, o) in s.obs.observers.iter_mut().enumerate() {
        if i % 3 == 1 && !o.missed_proposal {
            ctx.eval();
            let snap = o.g.snapshot();
            match client(&s.w, o.jitter).load_group(snap) {
                Ok(g2) => {
                    if g2.group_context() != o.g.group_context() || g2.export_tree().ok() != o.g.export_tree().ok() {
                        ctx.violation_for("C16", "observer-reload-differs", "an observer restored from its snapshot (with cached proposals) differs from the original");
                    }
                    o.g = g2;
                    ctx.goal("observer-reloaded-with-cached-proposal");
                }
                Err(e) => ctx.violation_for("C16", format!("observer-reload-failed|{}", err_name(&e)), format!("{e:?}")),
            }
        }
    }
    spawn_some(s, true, ctx);
}

/// The oldest observer, acting as the external sender named in the group context, proposes.
pub fn external_proposal(s: &mut HState, remove: bool, ctx: &mut Ctx) -> Option<MlsMessage> {
    let idx = s.obs.observers.iter().position(|o| o.jitter.is_none())?;
    let members = s.w.members();
    let msg = if remove {
        let target = *members.last()?;
        let leaf = s.w.leaf_of(target);
        s.obs.observers[idx].g.propose_remove(leaf, vec![])
    } else {
        let o = *s.w.outsiders().first()?;
        let kp = s.w.key_package(o).ok()?;
        s.pending_adds.push((o, kp.clone()));
        s.obs.observers[idx].g.propose_add(kp, vec![])
    };
    let msg = match msg {
        Ok(m) => m,
        Err(e) => {
            ctx.violation_for("C16", format!("external-proposal-cannot-be-built|{}", err_name(&e)), format!("{e:?}"));
            return None;
        }
    };
    ctx.goal("external-sender-proposal");
    for p in members {
        ctx.eval();
        match s.w.process(p, &msg) {
            Ok(_) => ctx.outcome("member:accepts-external-proposal"),
            Err(e) => {
                ctx.violation_for("C16", format!("member-rejects-external-proposal|{}", err_name(&e)), format!("{} rejects a proposal of the external sender named in the group context: {e:?}", s.w.parties[p].name));
                return None;
            }
        }
    }
    // the other observers see it too (the proposer has it cached already)
    let now = time(s.w.clock);
    s.obs.proposals_this_epoch += 1;
    for (i, o) in s.obs.observers.iter_mut().enumerate() {
        if i == idx {
            continue;
        }
        if let Ok(Err(e)) = guarded(|| o.g.process_incoming_message_with_time(msg.clone(), now)) {
            ctx.violation_for("C16", format!("observer-rejects-external-proposal|{}", err_name(&e)), format!("{e:?}"));
        }
    }
    feed_stateless(s, &msg, ctx);
    Some(msg)
}
