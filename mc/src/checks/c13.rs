//! C13: key schedule, secret tree, PSK chain, transcript hashes and tags equal the RFC 9420
//! formulas as computed by `reference::keysched` (independent code on sha2/hmac).
//!
//! Part A: an enumerated grid of inputs through the pure derivation entry points (hook H5),
//!         for every suite of every shipped provider.
//! Part B: binding to what real groups use: a scripted world in which, for every commit, the
//!         harness acts as a shadow joiner (opens the Welcome with the key package's private
//!         key), derives the whole epoch with the reference and compares it with what the real
//!         members hold (hook H6), including message keys, exporter, epoch authenticator,
//!         confirmation tag, transcript hashes, membership tag and the init-secret chain.

use mls_rs::group::verif_hooks::derive;
use mls_rs::group::GroupContext;
use mls_rs::{CipherSuite, CipherSuiteProvider, ExtensionList, MlsMessage};
use mls_rs_codec::MlsEncode;
use mls_rs_core::crypto::{HpkeCiphertext, HpkePublicKey, HpkeSecretKey};
use serde_json::json;

use super::{bounds_json, Meta};
use crate::engine::Ctx;
use crate::oracles::{hex, msg_bytes};
use crate::providers::{cs_provider, Which};
use crate::reference::framing::layout;
use crate::reference::keysched::{self as ks, Suite};
use crate::reference::tls::{put_vbytes, Rd};
use crate::stores;
use crate::world::*;

fn suites_of(w: Which) -> Vec<u16> {
    match w {
        Which::Rust => vec![1, 2, 3],
        Which::Ossl => vec![1, 2, 3, 4, 5, 6, 7],
        Which::Awslc => vec![1, 2, 3, 5, 7],
    }
}

fn pattern(kind: u8, len: usize) -> Vec<u8> {
    match kind {
        0 => vec![0u8; len],
        1 => vec![0xff; len],
        _ => (0..len).map(|i| (i * 7 + 3) as u8).collect(),
    }
}

fn context(suite: u16, variant: u8) -> GroupContext {
    let (gid, epoch, ext): (Vec<u8>, u64, ExtensionList) = match variant {
        0 => (vec![1], 0, ExtensionList::new()),
        1 => (b"group".to_vec(), 1, custom_ext(9)),
        2 => (vec![0xAB; 300], u64::MAX, ExtensionList::new()),
        _ => (vec![], 2, custom_ext(0)),
    };
    GroupContext {
        protocol_version: mls_rs::ProtocolVersion::MLS_10,
        cipher_suite: CipherSuite::new(suite),
        group_id: gid,
        epoch,
        tree_hash: pattern(2, Suite(suite).nh()),
        confirmed_transcript_hash: pattern(1, Suite(suite).nh()).into(),
        extensions: ext,
    }
}

/// Encoded PreSharedKeyID: external (id) or resumption (usage, group id, epoch), with nonce.
fn psk_id(kind: u8, nonce_len: usize) -> Vec<u8> {
    let mut out = vec![];
    match kind {
        0 => {
            out.push(1);
            put_vbytes(&mut out, b"ext-psk-a");
        }
        1 => {
            out.push(1);
            put_vbytes(&mut out, b"");
        }
        k => {
            out.push(2);
            out.push(k - 1); // usage 1 application, 2 reinit, 3 branch
            put_vbytes(&mut out, b"some group");
            out.extend(7u64.to_be_bytes());
        }
    }
    put_vbytes(&mut out, &pattern(2, nonce_len));
    out
}

fn cmp(ctx: &mut Ctx, what: &str, got: &[u8], want: &[u8], case: &str) {
    ctx.eval();
    if got != want {
        ctx.violation(format!("derivation-differs|{what}"), format!("{what} differs from the RFC 9420 formula for {case}: library {} reference {}", hex(&got[..got.len().min(16)]), hex(&want[..want.len().min(16)])));
    }
}

fn grid(which: Which, suite: u16, ctx: &mut Ctx) {
    let Some(cs) = cs_provider(which, CipherSuite::new(suite)) else {
        ctx.note(format!("{} does not support suite {suite}", which.name()));
        return;
    };
    let s = Suite(suite);
    let nh = s.nh();
    let quick = ctx.quick();
    // --- key schedule over (init, commit, context, psk_secret)
    let secrets: Vec<Vec<u8>> = vec![pattern(0, nh), pattern(1, nh), pattern(2, nh), pattern(2, nh - 1), pattern(2, nh + 5)];
    for (ii, init) in secrets.iter().enumerate() {
        for (ci, commit) in secrets.iter().enumerate() {
            if quick && ii > 2 && ci > 2 {
                continue;
            }
            for cv in 0..4u8 {
                for psk in [pattern(0, nh), pattern(2, nh)] {
                    let gc = context(suite, cv);
                    let cb = gc.mls_encode_to_vec().unwrap();
                    let case = format!("{} suite {suite} init#{ii} commit#{ci} ctx#{cv}", which.name());
                    let d = match derive::from_init(&cs, init, commit, &gc, 4, &psk) {
                        Ok(d) => d,
                        Err(e) => {
                            ctx.outcome(format!("from_init-err:{}", err_name(&e)));
                            continue;
                        }
                    };
                    let r = ks::epoch_from_init(s, init, commit, &psk, &cb);
                    for (name, got, want) in [
                        ("joiner_secret", &d.joiner_secret, &r.joiner_secret),
                        ("welcome_key", &d.welcome_key, &r.welcome_key),
                        ("welcome_nonce", &d.welcome_nonce, &r.welcome_nonce),
                        ("sender_data_secret", &d.sender_data_secret, &r.sender_data_secret),
                        ("resumption_psk", &d.resumption_secret, &r.resumption_psk),
                        ("exporter_secret", &d.exporter_secret, &r.exporter_secret),
                        ("epoch_authenticator", &d.authentication_secret, &r.epoch_authenticator),
                        ("external_secret", &d.external_secret, &r.external_secret),
                        ("membership_key", &d.membership_key, &r.membership_key),
                        ("init_secret", &d.init_secret, &r.init_secret),
                        ("confirmation_key", &d.confirmation_key, &r.confirmation_key),
                    ] {
                        cmp(ctx, name, got, want, &case);
                    }
                    // a joiner starting from the joiner secret gets the same epoch
                    if let Ok(dj) = derive::from_joiner(&cs, &r.joiner_secret, &gc, 4, &psk) {
                        cmp(ctx, "from_joiner.init_secret", &dj.init_secret, &r.init_secret, &case);
                        cmp(ctx, "from_joiner.confirmation_key", &dj.confirmation_key, &r.confirmation_key, &case);
                    }
                    ctx.extra("states", 1);
                }
            }
        }
    }
    ctx.outcome("grid:key-schedule");
    // --- secret tree: sizes x leaves x ratchet x generation, and the exporter
    let gc = context(suite, 1);
    let cb = gc.mls_encode_to_vec().unwrap();
    let sizes: Vec<u32> = if quick { vec![1, 2, 4, 8, 16] } else { vec![1, 2, 4, 8, 16, 32, 1024] };
    for n in sizes {
        let init = pattern(2, nh);
        let Ok(d) = derive::from_init(&cs, &init, &pattern(0, nh), &gc, n, &pattern(0, nh)) else { continue };
        let r = ks::epoch_from_init(s, &init, &pattern(0, nh), &pattern(0, nh), &cb);
        let leaves: Vec<u32> = if n <= 16 { (0..n).collect() } else { vec![0, 1, n / 2 - 1, n / 2, n - 2, n - 1] };
        for leaf in leaves {
            for hs in [false, true] {
                for g in [0u32, 1, 2, 255, 256, 1024] {
                    if quick && n > 4 && g > 2 && leaf % 3 != 0 {
                        continue;
                    }
                    let case = format!("{} suite {suite} tree {n} leaf {leaf} hs={hs} gen {g}", which.name());
                    match d.message_key(&cs, leaf, hs, g) {
                        Ok((k, nonce)) => {
                            let (rk, rn) = ks::message_key(s, &r.encryption_secret, n, leaf, hs, g);
                            cmp(ctx, "message_key", &k, &rk, &case);
                            cmp(ctx, "message_nonce", &nonce, &rn, &case);
                        }
                        Err(e) => ctx.violation(format!("message_key-error|{}", err_name(&e)), format!("{case}: {e:?}")),
                    }
                    ctx.extra("states", 1);
                }
            }
        }
        for (label, ectx, len) in [(&b""[..], &b""[..], 1usize), (b"label", b"", nh), (b"a longer label", b"with context", nh + 1), (b"x", b"y", 255 * nh)] {
            if let Ok(e) = d.export(&cs, label, ectx, len) {
                cmp(ctx, "export_secret", &e, &ks::export(s, &r.exporter_secret, label, ectx, len), &format!("{} suite {suite} export len {len}", which.name()));
            }
        }
    }
    ctx.outcome("grid:secret-tree+exporter");
    // --- PSK chain: 0..3 entries, all orders, every kind, nonce length Nh
    let kinds = [0u8, 1, 2, 3, 4];
    let mut lists: Vec<Vec<u8>> = vec![vec![]];
    for a in kinds {
        lists.push(vec![a]);
        for b in kinds {
            lists.push(vec![a, b]);
            if !quick || (a + b) % 2 == 0 {
                for c in kinds {
                    lists.push(vec![a, b, c]);
                }
            }
        }
    }
    for l in lists {
        let psks: Vec<(Vec<u8>, Vec<u8>)> = l.iter().enumerate().map(|(i, k)| (psk_id(*k, nh), pattern(2, 8 + i * 11 + *k as usize))).collect();
        let case = format!("{} suite {suite} psk kinds {l:?}", which.name());
        match derive::psk_secret(&cs, &psks) {
            Ok(got) => cmp(ctx, "psk_secret", &got, &ks::psk_secret(s, &psks), &case),
            Err(e) => ctx.violation(format!("psk_secret-error|{}", err_name(&e)), format!("{case}: {e:?}")),
        }
        ctx.extra("states", 1);
    }
    ctx.outcome("grid:psk-chain");
    // --- ExpandWithLabel boundary lengths
    for len in [1usize, nh - 1, nh, nh + 1, 255, 255 * nh] {
        if let Ok(got) = derive::expand_with_label(&cs, &pattern(2, nh), b"lbl", b"ctx", Some(len)) {
            cmp(ctx, "expand_with_label", &got, &s.expand_with_label(&pattern(2, nh), b"lbl", b"ctx", len), &format!("{} suite {suite} len {len}", which.name()));
        }
    }
    ctx.outcome("grid:expand-with-label");
    ctx.report.traces += 1;
}

// ------------------------------------------------------------------------------------------
// Part B
// ------------------------------------------------------------------------------------------

struct Shadow {
    joiner_secret: Vec<u8>,
    psk_ids: Vec<Vec<u8>>,
}

/// Open the Welcome's group secrets for party x with the private init key from x's store.
fn shadow_open(w: &World, x: usize, kp: &MlsMessage, welcome: &MlsMessage) -> Option<Shadow> {
    let cs = crate::oracles::cs_of(w, x);
    let kref = kp.key_package_reference(&cs).ok()??.to_vec();
    let (init_sk, init_pk) = {
        let sk = stores::peek(x as u32, |s| s.kps.get(&kref).map(|k| k.init_key.clone()))?;
        (HpkeSecretKey::from(sk), HpkePublicKey::from(kp.as_key_package()?.hpke_init_key.to_vec()))
    };
    let wb = msg_bytes(welcome);
    let lay = layout(&wb).ok()?;
    let egi = lay.region("encrypted_group_info")?;
    let mut r = Rd::new(&wb[egi.start..egi.end]);
    let encrypted_group_info = r.vbytes().ok()?.to_vec();
    // find our EncryptedGroupSecrets
    let sec = lay.region("secrets")?;
    let mut r = Rd::new(&wb[sec.start..sec.end]);
    let mut list = r.vsub().ok()?;
    while !list.done() {
        let new_member = list.vbytes().ok()?.to_vec();
        let kem_output = list.vbytes().ok()?.to_vec();
        let ciphertext = list.vbytes().ok()?.to_vec();
        if new_member != kref {
            continue;
        }
        // EncryptWithLabel(init_key, "Welcome", encrypted_group_info, group_secrets)
        let mut info = vec![];
        put_vbytes(&mut info, b"MLS 1.0 Welcome");
        put_vbytes(&mut info, &encrypted_group_info);
        let pt = cs.hpke_open(&HpkeCiphertext { kem_output, ciphertext }, &init_sk, &init_pk, &info, None).ok()?;
        let mut g = Rd::new(&pt);
        let joiner_secret = g.vbytes().ok()?.to_vec();
        if g.u8().ok()? == 1 {
            g.vbytes().ok()?;
        }
        let mut psks = g.vsub().ok()?;
        let mut psk_ids = vec![];
        while !psks.done() {
            let st = psks.pos;
            crate::reference::framing::skip_proposal_psk_id(&mut psks).ok()?;
            psk_ids.push(psks.buf[st..psks.pos].to_vec());
        }
        return Some(Shadow { joiner_secret, psk_ids });
    }
    None
}

fn compare_epoch(w: &World, member: usize, r: &ks::Epoch, how: &str, ctx: &mut Ctx) {
    let g = w.g(member);
    let k = g.verif_epoch_keys();
    let case = format!("{how}, epoch {} as held by {}", g.current_epoch(), w.parties[member].name);
    cmp(ctx, "member.exporter_secret", &k.exporter_secret, &r.exporter_secret, &case);
    cmp(ctx, "member.epoch_authenticator", &k.authentication_secret, &r.epoch_authenticator, &case);
    cmp(ctx, "member.external_secret", &k.external_secret, &r.external_secret, &case);
    cmp(ctx, "member.membership_key", &k.membership_key, &r.membership_key, &case);
    cmp(ctx, "member.init_secret", &k.init_secret, &r.init_secret, &case);
    cmp(ctx, "member.sender_data_secret", &k.sender_data_secret, &r.sender_data_secret, &case);
    cmp(ctx, "member.resumption_psk", &k.resumption_secret, &r.resumption_psk, &case);
    let s = Suite(w.cfg.suite);
    if let Ok(a) = g.epoch_authenticator() {
        cmp(ctx, "api.epoch_authenticator", a.as_bytes(), &r.epoch_authenticator, &case);
    }
    if let Ok(e) = g.export_secret(b"verif", b"ctx", 40) {
        cmp(ctx, "api.export_secret", e.as_bytes(), &ks::export(s, &r.exporter_secret, b"verif", b"ctx", 40), &case);
    }
    // the member's own next application key
    let mut g2 = g.clone();
    if let Ok(mk) = g2.next_encryption_key() {
        let n = crate::reference::treebytes::Tree::parse(&crate::oracles::tree_bytes(g)).map(|t| t.n_leaves()).unwrap_or(1);
        let (rk, rn) = ks::message_key(s, &r.encryption_secret, n, g.current_member_index(), false, mk.generation());
        cmp(ctx, "api.next_encryption_key", mk.key(), &rk, &case);
        cmp(ctx, "api.next_encryption_nonce", mk.nonce(), &rn, &case);
    }
    ctx.extra("states", 1);
}

fn strip_v(b: &[u8]) -> Vec<u8> {
    Rd::new(b).vbytes().map(|x| x.to_vec()).unwrap_or_default()
}

/// One commit round in the scripted world with all bindings checked.
fn bound_round(w: &mut World, by: usize, spec: &CommitSpec, psk_values: &[(u8, Vec<u8>)], res: &mut std::collections::BTreeMap<u64, Vec<u8>>, ctx: &mut Ctx) -> bool {
    let s = Suite(w.cfg.suite);
    let prev_keys = w.g(by).verif_epoch_keys();
    let prev_ctx = w.g(by).context().mls_encode_to_vec().unwrap();
    let prev_interim = strip_v(&w.g(by).verif_state().parts["interim_transcript_hash"]);
    let Ok(built) = w.commit(by, spec) else {
        ctx.note("C13 part B: scripted commit could not be built");
        return false;
    };
    let cm = msg_bytes(&built.out.commit_message);
    let members = w.members();
    for &p in &members {
        if p != by && w.process(p, &built.out.commit_message).is_err() {
            ctx.note("C13 part B: scripted commit rejected");
            return false;
        }
    }
    if w.apply(by).is_err() {
        return false;
    }
    let new_ctx = w.g(by).context().mls_encode_to_vec().unwrap();
    // transcript hashes and tags from the wire bytes (public messages only)
    if let Ok(lay) = layout(&cm) {
        if lay.wire_format == 1 {
            let sig = lay.region("signature").unwrap();
            let tag = lay.region("confirmation_tag").unwrap();
            let mut inp = prev_interim.clone();
            inp.extend_from_slice(&cm[2..sig.end]);
            let confirmed = s.hash(&inp);
            cmp(ctx, "confirmed_transcript_hash", &w.g(by).context().confirmed_transcript_hash, &confirmed, "from the commit's wire bytes");
            let mut inp2 = confirmed.clone();
            inp2.extend_from_slice(&cm[tag.start..tag.end]);
            let interim = s.hash(&inp2);
            cmp(ctx, "interim_transcript_hash", &strip_v(&w.g(by).verif_state().parts["interim_transcript_hash"]), &interim, "from the commit's wire bytes");
            // membership tag over TBM = version || wire_format || content || context || auth
            if let Some(mt) = lay.region("membership_tag") {
                let content_start = 4;
                let mut tbm = cm[0..4].to_vec();
                tbm.extend_from_slice(&cm[content_start..sig.start]);
                tbm.extend_from_slice(&prev_ctx);
                tbm.extend_from_slice(&cm[sig.start..tag.end]);
                cmp(ctx, "membership_tag", &strip_v(&cm[mt.start..mt.end]), &s.hmac(&prev_keys.membership_key, &tbm), "from the commit's wire bytes");
            }
            ctx.goal("transcript-and-tags-bound");
        }
    }
    // PSK secret for this commit
    let mut psk_secret = vec![0u8; s.nh()];
    let mut epoch_ref: Option<ks::Epoch> = None;
    // shadow joiner per Welcome
    for (x, kp) in &built.added {
        let Some(welcome) = built.out.welcome_messages.iter().find(|wm| {
            let cs = crate::oracles::cs_of(w, *x);
            kp.key_package_reference(&cs).ok().flatten().map(|r| wm.welcome_key_package_references().contains(&&r)).unwrap_or(false)
        }) else { continue };
        let Some(sh) = shadow_open(w, *x, kp, welcome) else {
            ctx.violation("shadow-joiner-cannot-open-welcome", "EncryptedGroupSecrets cannot be opened with the key package's init key under EncryptWithLabel(\"Welcome\", encrypted_group_info)");
            continue;
        };
        if !sh.psk_ids.is_empty() {
            // value per id, in the order of the Welcome's GroupSecrets.psks (= the order of the
            // PSK proposals in the commit, RFC 9420 8.4): external -> the stored value;
            // resumption -> the resumption secret the reference derived for that epoch
            let list: Vec<(Vec<u8>, Vec<u8>)> = sh
                .psk_ids
                .iter()
                .map(|id| {
                    let val = if id.first() == Some(&2) {
                        let mut rd = crate::reference::tls::Rd::new(&id[2..]);
                        let _ = rd.vbytes();
                        let e = rd.u64().unwrap_or(u64::MAX);
                        ctx.goal("resumption-psk-in-bound-commit");
                        res.get(&e).cloned().unwrap_or_default()
                    } else {
                        psk_values.first().map(|v| v.1.clone()).unwrap_or_default()
                    };
                    (id.clone(), val)
                })
                .collect();
            if list.len() >= 2 && list.iter().any(|(i, _)| i.first() == Some(&1)) && list.iter().any(|(i, _)| i.first() == Some(&2)) {
                ctx.goal("mixed-psk-list-in-bound-commit");
            }
            psk_secret = ks::psk_secret(s, &list);
        }
        let r = ks::epoch_from_joiner(s, &sh.joiner_secret, &psk_secret, &new_ctx);
        // GroupInfo decrypts under the reference welcome key / nonce and carries the reference tag
        let wb = msg_bytes(welcome);
        let lay = layout(&wb).unwrap();
        let egi = lay.region("encrypted_group_info").unwrap();
        let enc = strip_v(&wb[egi.start..egi.end]);
        let cs = crate::oracles::cs_of(w, *x);
        ctx.eval();
        match cs.aead_open(&r.welcome_key, &enc, None, &r.welcome_nonce) {
            Ok(gi) => {
                let tag = ks::confirmation_tag(s, &r.confirmation_key, &w.g(by).context().confirmed_transcript_hash);
                let mut enc_tag = vec![];
                put_vbytes(&mut enc_tag, &tag);
                if !gi.windows(enc_tag.len()).any(|wd| wd == &enc_tag[..]) {
                    ctx.violation("derivation-differs|confirmation_tag", "the GroupInfo inside the Welcome does not carry MAC(confirmation_key, confirmed_transcript_hash)");
                }
                ctx.goal("welcome-opened-with-reference-keys");
            }
            Err(_) => ctx.violation("derivation-differs|welcome_key", "the encrypted GroupInfo does not open under the reference welcome key/nonce"),
        }
        epoch_ref = Some(r);
        // the real joiner joins
        let tree = if w.cfg.tree_ext { None } else { Some(w.g(by).export_tree().into_owned()) };
        let _ = w.join(*x, welcome, tree);
    }
    // init-secret chain for path-less commits (commit_secret = zeros)
    if !built.out.contains_update_path {
        if spec.props.iter().any(|p| matches!(p, Prop::ExternalPsk(_))) && epoch_ref.is_none() {
            // PSK id bytes as the library encodes them are only visible through a Welcome; skip
        } else {
            let r = ks::epoch_from_init(s, &prev_keys.init_secret, &vec![0u8; s.nh()], &psk_secret, &new_ctx);
            if let Some(e) = &epoch_ref {
                cmp(ctx, "init-chain.joiner_secret", &r.joiner_secret, &e.joiner_secret, "path-less commit: Extract(init_secret[n-1], 0)");
            }
            epoch_ref = Some(r);
            ctx.goal("init-secret-chain-bound");
        }
    }
    if let Some(r) = &epoch_ref {
        for m in w.members() {
            compare_epoch(w, m, r, "scripted world", ctx);
        }
    }
    // the resumption secret of this epoch is an INPUT of later PSK commits (where a reference
    // epoch exists it has just been compared with it)
    res.insert(w.g(by).current_epoch(), w.g(by).verif_epoch_keys().resumption_secret);
    ctx.report.transitions += 1;
    true
}

fn part_b(suite: u16, which: Which, enc: bool, ctx: &mut Ctx) {
    let cfg = WorldCfg { suite, providers: vec![which], encrypt_handshake: enc, ..Default::default() };
    let mut w = World::new(cfg, 7);
    let psk_val = b"psk-zero-value".to_vec();
    for p in 0..7 {
        w.set_psk(p, 0, psk_val.clone());
    }
    let script: Vec<(usize, CommitSpec)> = vec![
        (0, CommitSpec { props: vec![Prop::Add(1), Prop::Add(2)], ..Default::default() }),
        (1, CommitSpec::default()),
        (2, CommitSpec { props: vec![Prop::Add(3)], ..Default::default() }),
        (0, CommitSpec { props: vec![Prop::ExternalPsk(0), Prop::Add(4)], ..Default::default() }),
        (3, CommitSpec { props: vec![Prop::Remove(1)], ..Default::default() }),
        // mixed PSK lists in both orders (the resumption PSK names the epoch two commits back);
        // the Add makes the list visible through a Welcome
        // (the added party cannot join for real -- it never held the resumption PSK -- but the
        // shadow joiner opens its Welcome; it stays a phantom leaf)
        (2, CommitSpec { props: vec![Prop::ResumptionPsk(4), Prop::ExternalPsk(0), Prop::Add(5)], ..Default::default() }),
        (3, CommitSpec { props: vec![Prop::ExternalPsk(0), Prop::ResumptionPsk(5), Prop::Add(6)], ..Default::default() }),
    ];
    let mut res: std::collections::BTreeMap<u64, Vec<u8>> = Default::default();
    let r = w.run(|w| {
        if w.create(0).is_err() {
            return;
        }
        for (by, spec) in &script {
            if !w.is_member(*by) {
                continue;
            }
            if let Some(Prop::Remove(x)) = spec.props.first() {
                let x = *x;
                if !bound_round(w, *by, spec, &[(0, psk_val.clone())], &mut res, ctx) {
                    break;
                }
                w.retire(x, true);
                continue;
            }
            if !bound_round(w, *by, spec, &[(0, psk_val.clone())], &mut res, ctx) {
                break;
            }
        }
    });
    if r.is_err() {
        let (loc, msg, lib) = crate::engine::take_panic();
        if lib {
            ctx.violation(format!("panic|{loc}"), msg);
        } else {
            crate::engine::machinery(&format!("harness panic at {loc}: {msg}"));
        }
    }
    ctx.report.traces += 1;
}

pub fn meta(_tier: &str) -> Meta {
    Meta {
        level: "model_checking",
        rule: "Part A: for every suite of every shipped provider the pure derivation entry points are compared with the independent RFC implementation on the grid {init secret x commit secret (zero, ones, pattern, Nh-1, Nh+5 bytes)} x {4 group contexts incl. epoch 2^64-1, long group id, extensions} x {psk secret}; secret tree sizes {1..16,32,1024} x leaves x both ratchets x generations {0,1,2,255,256,1024}; exporter lengths {1,Nh,Nh+1,255*Nh}; PSK lists of 0..3 entries over 5 id kinds in every order; ExpandWithLabel lengths. Part B: scripted worlds (suites 1,2,3 / providers / public+encrypted handshake): for every commit the harness opens the Welcome as a shadow joiner and derives the epoch with the reference; every secret every real member holds, exporter, epoch authenticator, next message key, confirmation tag, both transcript hashes and the membership tag (from wire bytes) and the init-secret chain must agree; the script includes commits whose PSK lists mix a resumption and an external PSK in both orders (the PSK secret must chain them in the order of the proposals, RFC 9420 8.4). states = grid cells / member-epochs compared".into(),
        assumptions: vec![
            "reference: reference::keysched (HKDF/HMAC written out on sha2+hmac), independent of mls-rs".into(),
            "the encryption secret is compared through the message keys derived from it".into(),
        ],
        bounds: bounds_json(&[("suites", json!("rustcrypto 1-3, openssl 1-7, awslc 1,2,3,5,7"))]),
        required_goals: vec!["welcome-opened-with-reference-keys", "init-secret-chain-bound", "transcript-and-tags-bound", "mixed-psk-list-in-bound-commit"],
        min_outcomes: 4,
        workers: 15,
    }
}

pub fn run(ctx: &mut Ctx) {
    let mut item = 0;
    for which in Which::all() {
        for suite in suites_of(which) {
            if ctx.mine(item) {
                grid(which, suite, ctx);
            }
            item += 1;
        }
    }
    for (suite, which, enc) in [(1u16, Which::Rust, false), (1, Which::Ossl, true), (2, Which::Awslc, false), (3, Which::Rust, true), (7, Which::Ossl, false), (5, Which::Awslc, false)] {
        if ctx.mine(item) {
            part_b(suite, which, enc, ctx);
        }
        item += 1;
    }
    if ctx.shard.0 == 0 {
        let s = Suite(1);
        let e = ks::epoch_from_init(s, &[0u8; 32], &[0u8; 32], &[0u8; 32], b"ctx");
        ctx.sample(json!({"suite": 1, "init": "00*32", "commit": "00*32", "psk": "00*32", "context": "ctx", "reference_epoch_authenticator": hex(&e.epoch_authenticator)}));
    }
}

pub fn replay(_ctx: &mut Ctx, _path: &[usize]) {
    println!("C13 is an enumerated grid: rerun `bin/check C13 quick`");
}
