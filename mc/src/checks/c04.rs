//! C04: a rejected message leaves the group exactly as it was.
//!
//! Runs as a monitor on the history exploration: in every reached state, for every member m,
//! a menu of messages that m must reject is built on forks (one mutant per framing region of
//! every genuine message currently deliverable to m, messages of the wrong epoch, commits
//! that reference a proposal / PSK / identity m cannot resolve, operations m fails to build).
//! For each: fork m, process -> must be Err -> complete state (hook H1, effective view) equal
//! to before; then the genuine message is processed and m must end exactly where a twin that
//! saw only the genuine message ends; finally m's next message is accepted by a peer.

use mls_rs::group::ReceivedMessage;
use mls_rs::MlsMessage;

use super::history::HState;
use crate::engine::Ctx;
use crate::oracles::msg_bytes;
use crate::reference::framing::{layout, Layout};
use crate::stateq::{diff, diff_classes, effective};
use crate::stores;
use crate::world::*;

pub struct Genuine {
    pub kind: &'static str,
    pub msg: MlsMessage,
    pub from: usize,
}

/// Genuine messages deliverable to `m` right now, each produced on a fork of the sender.
pub fn genuine_for(w: &World, m: usize) -> Vec<Genuine> {
    let mut out = vec![];
    let peers: Vec<usize> = w.members().into_iter().filter(|p| *p != m).collect();
    let Some(&p) = peers.first() else { return out };
    let q = *peers.last().unwrap();
    stores::with_fork(|| {
        let mut g = w.g(p).clone();
        if let Ok(msg) = g.encrypt_application_message(b"genuine application data", b"aad".to_vec()) {
            out.push(Genuine { kind: "application", msg, from: p });
        }
        let mut g = w.g(q).clone();
        if let Ok(msg) = g.propose_update(b"pa".to_vec()) {
            out.push(Genuine { kind: "proposal", msg, from: q });
        }
        let mut g = w.g(p).clone();
        if let Ok(o) = g.commit(b"ca".to_vec()) {
            out.push(Genuine { kind: "commit", msg: o.commit_message, from: p });
        }
    });
    // commit adding an outsider (carries a Welcome; path or not depending on configuration)
    if let Some(&o) = w.outsiders().first() {
        let mut w2 = w.clone();
        stores::with_fork(|| {
            if let Ok(b) = w2.commit(q, &CommitSpec { props: vec![Prop::Add(o)], ..Default::default() }) {
                out.push(Genuine { kind: "commit-add", msg: b.out.commit_message, from: q });
            }
        });
    }
    out
}

/// (label, bytes) mutants of one message: one bit at the first and last byte of every framing
/// region, extra positions inside long opaque regions, and truncations at region boundaries.
pub fn mutants(bytes: &[u8], lay: &Layout) -> Vec<(String, Vec<u8>)> {
    let mut out = vec![];
    let mut flip = |off: usize, bit: u8, name: &str| {
        if off < bytes.len() {
            let mut b = bytes.to_vec();
            b[off] ^= 1 << bit;
            out.push((format!("flip@{name}"), b));
        }
    };
    for r in &lay.regions {
        if r.end == r.start {
            continue;
        }
        flip(r.start, 0, &r.name);
        flip(r.end - 1, 7, &r.name);
        if r.end - r.start > 40 {
            flip(r.start + (r.end - r.start) / 2, 3, &r.name);
            flip(r.end - 17, 1, &r.name);
        }
    }
    for r in &lay.regions {
        if r.end < bytes.len() && r.end > 4 {
            out.push((format!("truncate-after@{}", r.name), bytes[..r.end].to_vec()));
        }
    }
    out.push(("truncate-last-byte".into(), bytes[..bytes.len() - 1].to_vec()));
    out
}

fn wire_name(l: &Layout) -> &'static str {
    match (l.wire_format, l.content_type) {
        (1, 1) => "public-application",
        (1, 2) => "public-proposal",
        (1, 3) => "public-commit",
        (2, 1) => "private-application",
        (2, 2) => "private-proposal",
        (2, 3) => "private-commit",
        _ => "other",
    }
}

/// Process `bad` on a fork of m: must be rejected and leave the state unchanged.
/// Returns the fork if it was rejected (for the follow-up checks).
fn reject_and_compare(w: &World, m: usize, bad: &MlsMessage, class: &str, label: &str, ctx: &mut Ctx) -> Option<G> {
    let what = format!("{class}|{label}");
    let what = what.as_str();
    let mut g = w.g(m).clone();
    let pre = effective(&g, m as u32);
    ctx.eval();
    match g.process_incoming_message_with_time(bad.clone(), time(w.clock)) {
        Ok(_) => {
            ctx.outcome(format!("not-rejected:{}", what.split('@').next().unwrap_or(what)));
            None
        }
        Err(e) => {
            let post = effective(&g, m as u32);
            let d = diff(&pre, &post, &[]);
            ctx.outcome(format!("rejected:{}", err_name(&e)));
            if !d.is_empty() {
                ctx.violation_for(
                    "C04",
                    format!("rejected-message-changed-state|{class}|{}|{}", err_name(&e), diff_classes(&d)),
                    format!("{} rejected a message ({what}) with {e:?} but its state changed in: {d:?}", w.parties[m].name),
                );
            }
            Some(g)
        }
    }
}

pub fn probe(s: &HState, ctx: &mut Ctx) {
    let w = &s.w;
    let members = w.members();
    if members.len() < 2 {
        return;
    }
    for &m in &members {
        let gens = genuine_for(w, m);
        for gen in &gens {
            let bytes = msg_bytes(&gen.msg);
            let Ok(lay) = layout(&bytes) else {
                ctx.note("reference framing parser could not read a genuine message");
                continue;
            };
            let wname = wire_name(&lay);
            // the twin: m processes only the genuine message
            let twin = stores::with_fork(|| {
                let mut g = w.g(m).clone();
                g.process_incoming_message_with_time(gen.msg.clone(), time(w.clock)).ok().map(|_| effective(&g, m as u32))
            });
            let Some(twin) = twin else {
                ctx.outcome(format!("genuine-{}-rejected", gen.kind));
                continue;
            };
            // a provider error surfaced from storage: every storage call that processing the
            // genuine message makes is failed once; the message is then rejected although it is
            // authentic, the state must be what it was, and the same message must be accepted
            // once the storage works again, with the twin's result
            let n_calls = stores::with_fork(|| {
                stores::peek(m as u32, |st| st.reset_calls());
                let mut g = w.g(m).clone();
                let _ = g.process_incoming_message_with_time(gen.msg.clone(), time(w.clock));
                stores::peek(m as u32, |st| st.calls.len())
            });
            for k in 0..n_calls {
                stores::with_fork(|| {
                    stores::peek(m as u32, |st| {
                        st.reset_calls();
                        st.fail_calls.insert(k);
                    });
                    let mut g = w.g(m).clone();
                    let pre = effective(&g, m as u32);
                    ctx.eval();
                    let r = g.process_incoming_message_with_time(gen.msg.clone(), time(w.clock));
                    let failed_call = stores::peek(m as u32, |st| st.calls.iter().find(|c| c.failed).map(|c| format!("{}.{}", c.store, c.op)));
                    stores::peek(m as u32, |st| st.reset_calls());
                    let Some(call) = failed_call else { return };
                    ctx.goal("storage-fault-while-processing");
                    match r {
                        Ok(_) => ctx.outcome(format!("storage-fault:{call}:not-surfaced")),
                        Err(e) => {
                            ctx.outcome(format!("storage-fault:{call}:rejected:{}", err_name(&e)));
                            let post = effective(&g, m as u32);
                            let d = diff(&pre, &post, &[]);
                            if !d.is_empty() {
                                ctx.violation_for(
                                    "C04",
                                    format!("rejected-message-changed-state|storage-fault:{wname}:{}|{}|{}", gen.kind, err_name(&e), diff_classes(&d)),
                                    format!("{} rejected a genuine {} because {call} failed ({e:?}) but its state changed in: {d:?}", w.parties[m].name, gen.kind),
                                );
                            }
                            ctx.eval();
                            match g.process_incoming_message_with_time(gen.msg.clone(), time(w.clock)) {
                                Ok(_) => {
                                    let after = effective(&g, m as u32);
                                    let d = diff(&twin, &after, &[]);
                                    if !d.is_empty() {
                                        ctx.violation_for("C04", format!("genuine-after-storage-fault-differs|{wname}:{}|{}", gen.kind, diff_classes(&d)), format!("{}: after {call} failed once the genuine message leads to a different state than for its twin: {d:?}", w.parties[m].name));
                                    } else {
                                        ctx.outcome("genuine-after-storage-fault:same-as-twin");
                                    }
                                }
                                Err(e2) => ctx.violation_for(
                                    "C04",
                                    format!("genuine-rejected-after-storage-fault|{wname}:{}|{}", gen.kind, err_name(&e2)),
                                    format!("{}: after {call} failed once the genuine {} is refused with {e2:?}", w.parties[m].name, gen.kind),
                                ),
                            }
                        }
                    }
                });
            }
            let mut follow_up_done = false;
            for (label, mb) in mutants(&bytes, &lay) {
                let Ok(bad) = MlsMessage::from_bytes(&mb) else {
                    ctx.outcome("mutant-undecodable");
                    continue;
                };
                if mb == bytes {
                    continue;
                }
                let what = format!("{wname}|{label}");
                stores::with_fork(|| {
                    let Some(mut g) = reject_and_compare(w, m, &bad, wname, &label, ctx) else { return };
                    // (2) the genuine message afterwards: same end state as the twin
                    ctx.eval();
                    match g.process_incoming_message_with_time(gen.msg.clone(), time(w.clock)) {
                        Ok(_) => {
                            let after = effective(&g, m as u32);
                            let d = diff(&twin, &after, &[]);
                            if !d.is_empty() {
                                ctx.violation_for("C04", format!("genuine-after-rejected-differs|{wname}|{}", diff_classes(&d)), format!("{}: after rejecting {what} the genuine message leads to a different state than for its twin: {d:?}", w.parties[m].name));
                            } else {
                                ctx.outcome("genuine-after-rejected:same-as-twin");
                            }
                        }
                        Err(e) => ctx.violation_for(
                            "C04",
                            format!("genuine-rejected-after-bad-copy|{wname}|{}", err_name(&e)),
                            format!("{}: after rejecting {what} the genuine message is refused with {e:?}", w.parties[m].name),
                        ),
                    }
                    // (3) once per genuine message: what m sends next is accepted by a peer that
                    // also processed the genuine message
                    if !follow_up_done {
                        follow_up_done = true;
                        let peer = members.iter().copied().find(|p| *p != m && *p != gen.from);
                        if let Some(peer) = peer {
                            let mut gp = w.g(peer).clone();
                            let peer_ok = match gp.process_incoming_message_with_time(gen.msg.clone(), time(w.clock)) {
                                Ok(ReceivedMessage::Commit(d)) => matches!(d.effect, mls_rs::group::CommitEffect::NewEpoch(_)),
                                Ok(_) => true,
                                Err(_) => false,
                            };
                            if peer_ok && g.current_epoch() == gp.current_epoch() {
                                if let Ok(next) = g.encrypt_application_message(b"after", vec![]) {
                                    ctx.eval();
                                    match gp.process_incoming_message_with_time(next, time(w.clock)) {
                                        Ok(ReceivedMessage::ApplicationMessage(_)) => ctx.outcome("next-send-accepted"),
                                        Ok(_) => {}
                                        Err(e) => ctx.violation_for("C04", format!("next-send-refused|{wname}|{}", err_name(&e)), format!("after rejecting {what}, what {} sends next is refused by {}: {e:?}", w.parties[m].name, w.parties[peer].name)),
                                    }
                                }
                            }
                        }
                    }
                });
            }
        }
        semantic_rejects(s, m, ctx);
        build_failures(w, m, ctx);
    }
}

/// Well-formed, authentic messages that m must nevertheless reject.
fn semantic_rejects(s: &HState, m: usize, ctx: &mut Ctx) {
    let w = &s.w;
    let peers: Vec<usize> = w.members().into_iter().filter(|p| *p != m).collect();
    let Some(&p) = peers.first() else { return };
    // wrong epoch: traffic of the previous round
    for old in &s.last_round_msgs {
        if old.epoch().map(|e| e < w.g(m).current_epoch()).unwrap_or(false) && old.wire_format() == mls_rs::WireFormat::PublicMessage {
            stores::with_fork(|| {
                reject_and_compare(w, m, old, "previous-epoch-handshake", "", ctx);
            });
        }
    }
    // a commit that references a proposal m never saw
    stores::with_fork(|| {
        let mut gp = w.g(p).clone();
        if gp.propose_group_context_extensions(custom_ext(0x77), vec![]).is_ok() {
            if let Ok(o) = gp.commit(vec![]) {
                ctx.goal("commit-with-unknown-proposal-ref");
                reject_and_compare(w, m, &o.commit_message, "commit-with-proposal-m-lacks", "", ctx);
            }
        }
    });
    // a PSK commit whose PSK m lacks
    stores::with_fork(|| {
        stores::peek(m as u32, |st| st.psks.clear());
        let mut w2 = w.clone();
        if let Ok(b) = w2.commit(p, &CommitSpec { props: vec![Prop::ExternalPsk(0)], ..Default::default() }) {
            ctx.goal("psk-commit-m-lacks-psk");
            reject_and_compare(w, m, &b.out.commit_message, "psk-commit-m-lacks-psk", "", ctx);
        }
    });
    // a PSK commit while m holds another value for that PSK: everything validates, the update
    // path is applied, and only the confirmation tag at the very end does not match
    for (label, spec) in [
        ("psk-commit-m-holds-other-value", CommitSpec { props: vec![Prop::ExternalPsk(0)], ..Default::default() }),
        ("psk+remove-commit-m-holds-other-value", CommitSpec { props: vec![Prop::ExternalPsk(0), Prop::Remove(*peers.last().unwrap())], ..Default::default() }),
    ] {
        if spec.props.len() == 2 && (peers.len() < 2 || *peers.last().unwrap() == p) {
            continue;
        }
        stores::with_fork(|| {
            stores::peek(m as u32, |st| {
                st.psks.insert(World::psk_id(0).to_vec(), b"a different value".to_vec());
            });
            let mut w2 = w.clone();
            if let Ok(b) = w2.commit(p, &spec) {
                ctx.goal("late-failure-at-confirmation-tag");
                reject_and_compare(w, m, &b.out.commit_message, label, "", ctx);
            }
        });
    }
    // a commit adding somebody m's identity provider refuses
    if let Some(&o) = w.outsiders().first() {
        stores::with_fork(|| {
            let mut w2 = w.clone();
            if let Ok(b) = w2.commit(p, &CommitSpec { props: vec![Prop::Add(o)], ..Default::default() }) {
                identity_reject_set(vec![(m as u32, w.parties[o].name.as_bytes().to_vec())]);
                ctx.goal("commit-identity-rejected-by-m");
                reject_and_compare(w, m, &b.out.commit_message, "commit-adds-identity-m-rejects", "", ctx);
                identity_reject_set(vec![]);
            }
        });
    }
}

/// Operations m fails to build must leave it unchanged.
fn build_failures(w: &World, m: usize, ctx: &mut Ctx) {
    let cases: Vec<(&str, Box<dyn Fn(&mut G) -> bool>)> = vec![
        ("commit-remove-out-of-range", Box::new(|g: &mut G| g.commit_builder().remove_member(77).and_then(|b| b.build()).is_err())),
        ("commit-remove-self", Box::new(|g: &mut G| {
            let me = g.current_member_index();
            g.commit_builder().remove_member(me).and_then(|b| b.build()).is_err()
        })),
        ("commit-unknown-psk", Box::new(|g: &mut G| g.commit_builder().add_external_psk(World::psk_id(9)).and_then(|b| b.build()).is_err())),
        ("commit-resumption-psk-of-future-epoch", Box::new(|g: &mut G| {
            let e = g.current_epoch() + 5;
            g.commit_builder().add_resumption_psk(e).and_then(|b| b.build()).is_err()
        })),
        ("propose-remove-out-of-range", Box::new(|g: &mut G| g.propose_remove(77, vec![]).is_err())),
        ("propose-unknown-psk", Box::new(|g: &mut G| g.propose_external_psk(World::psk_id(9), vec![]).is_err())),
    ];
    for (name, f) in cases {
        stores::with_fork(|| {
            let mut g = w.g(m).clone();
            let pre = effective(&g, m as u32);
            ctx.eval();
            if f(&mut g) {
                let post = effective(&g, m as u32);
                let d = diff(&pre, &post, &[]);
                ctx.outcome(format!("build-failed:{name}"));
                if !d.is_empty() {
                    ctx.violation_for("C04", format!("failed-build-changed-state|{name}|{}", diff_classes(&d)), format!("{}: {name} failed but the state changed in {d:?}", w.parties[m].name));
                }
            } else {
                ctx.outcome(format!("build-succeeded:{name}"));
            }
        });
    }
    // local operations that fail because of the storage: with an own Update outstanding and an
    // own commit pending, applying the commit (directly, or as the echo of the own message)
    // while every storage call of that operation fails once must leave everything as it was
    stores::with_fork(|| {
        let mut g = w.g(m).clone();
        if !g.get_cached_proposals().is_empty() || g.has_pending_commit() {
            return;
        }
        if g.propose_update(vec![]).is_err() {
            return;
        }
        let Ok(out) = g.commit_builder().build() else { return };
        for echo in [false, true] {
            let n_calls = stores::with_fork(|| {
                stores::peek(m as u32, |st| st.reset_calls());
                let mut g2 = g.clone();
                let _ = if echo { g2.process_incoming_message_with_time(out.commit_message.clone(), time(w.clock)).map(|_| ()) } else { g2.apply_pending_commit().map(|_| ()) };
                stores::peek(m as u32, |st| st.calls.len())
            });
            for k in 0..n_calls {
                stores::with_fork(|| {
                    stores::peek(m as u32, |st| {
                        st.reset_calls();
                        st.fail_calls.insert(k);
                    });
                    let mut g2 = g.clone();
                    let pre = effective(&g2, m as u32);
                    ctx.eval();
                    let r = if echo { g2.process_incoming_message_with_time(out.commit_message.clone(), time(w.clock)).map(|_| ()) } else { g2.apply_pending_commit().map(|_| ()) };
                    let reached = stores::peek(m as u32, |st| st.calls.iter().any(|c| c.failed));
                    stores::peek(m as u32, |st| st.reset_calls());
                    if !reached {
                        return;
                    }
                    let what = if echo { "own-commit-echo" } else { "apply-pending-commit" };
                    ctx.goal("storage-fault-in-local-operation");
                    match r {
                        Ok(()) => ctx.outcome(format!("local-storage-fault:{what}:not-surfaced")),
                        Err(e) => {
                            ctx.outcome(format!("local-storage-fault:{what}:{}", err_name(&e)));
                            let post = effective(&g2, m as u32);
                            let d = diff(&pre, &post, &[]);
                            if !d.is_empty() {
                                ctx.violation_for("C04", format!("failed-operation-changed-state|{what}|{}|{}", err_name(&e), diff_classes(&d)), format!("{}: {what} failed with {e:?} (storage fault) but the state changed in {d:?}", w.parties[m].name));
                            }
                        }
                    }
                });
            }
        }
    });
}
