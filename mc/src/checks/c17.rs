//! C17: re-init and branch keep the membership rules and the link to the old group.
//!
//! Old-group gallery (dense, interior blank leaf, identity change, after an external commit) x
//! every member as creator x every successor member set {equal, each strict subset, superset by
//! an outsider, one identity replaced} x every order of the key packages, for re-init and for
//! branch. Reference predicate on identity sets: re-init succeeds iff the sets are equal,
//! branch iff the new set is a subset -- whatever the shape of the old tree.

use std::collections::BTreeSet;

use mls_rs::error::MlsError;
use mls_rs::MlsMessage;
use serde_json::json;

use super::{bounds_json, default_assumptions, Meta};
use crate::engine::{take_panic, Ctx};
use crate::oracles::ledger_entry;
use crate::stores;
use crate::world::*;

#[derive(Clone, Debug)]
pub struct Case {
    seed: &'static str,
    branch: bool,
    creator: usize,
    /// successor members besides the creator, in key-package order
    others: Vec<usize>,
    /// re-init parameters: 0 = given group id, same suite, no extensions; 1 = no group id
    /// (the library draws one); 2 = group context extensions changed; 3 = other cipher suite
    /// (2, P-256: every member continues with a fresh signature key of the new scheme)
    variant: u8,
}

const SEEDS: [&str; 6] = ["dense3", "blank-interior3", "dense4", "blank-interior4", "after-rekey", "after-external-commit"];

fn round(w: &mut World, by: usize, spec: CommitSpec) -> Result<(), MlsError> {
    let b = w.commit(by, &spec)?;
    for p in w.members() {
        if p != by {
            w.process(p, &b.out.commit_message)?;
        }
    }
    w.apply(by)?;
    for pr in &spec.props {
        if let Prop::Remove(x) = pr {
            w.retire(*x, true);
        }
    }
    for (x, _) in &b.added {
        w.join(*x, &b.out.welcome_messages[0], None)?;
    }
    Ok(())
}

fn seed_world(name: &str) -> World {
    let mut w = World::new(WorldCfg::default(), 6);
    let r = w.run(|w| {
        w.create(0)?;
        let add = |v: Vec<usize>| CommitSpec { props: v.into_iter().map(Prop::Add).collect(), ..Default::default() };
        match name {
            "dense3" => round(w, 0, add(vec![1, 2]))?,
            "blank-interior3" => {
                round(w, 0, add(vec![1, 2]))?;
                round(w, 2, CommitSpec { props: vec![Prop::Remove(1)], ..Default::default() })?;
            }
            "dense4" => {
                round(w, 0, add(vec![1, 2, 3]))?;
                round(w, 1, CommitSpec::default())?;
            }
            "blank-interior4" => {
                round(w, 0, add(vec![1, 2, 3]))?;
                round(w, 3, CommitSpec { props: vec![Prop::Remove(1)], ..Default::default() })?;
            }
            "after-rekey" => {
                round(w, 0, add(vec![1, 2]))?;
                round(w, 1, CommitSpec { rekey: true, ..Default::default() })?;
            }
            _ => {
                round(w, 0, add(vec![1, 2]))?;
                // party 3 joins by external commit
                let gi = w.g(0).group_info_message_allowing_ext_commit(true)?;
                let (g, m) = w.parties[3].client.external_commit_builder()?.commit_time(time(*CLOCK0)).build(gi)?;
                for p in w.members() {
                    w.process(p, &m)?;
                }
                w.parties[3].group = Some(g);
            }
        }
        Ok::<(), MlsError>(())
    });
    if !matches!(r, Ok(Ok(()))) {
        crate::engine::machinery("C17 seed could not be built");
    }
    w
}

fn names(w: &World, v: &[usize]) -> BTreeSet<String> {
    v.iter().map(|p| w.parties[*p].name.clone()).collect()
}

fn run_case(c: &Case, ctx: &mut Ctx) {
    let mut w = seed_world(c.seed);
    let label = format!("{c:?}");
    ctx.cur_trail = vec![label.clone()];
    let table = std::mem::take(&mut w.stores);
    stores::install(table);
    let r = std::panic::catch_unwind(std::panic::AssertUnwindSafe(|| {
        let old_members = w.members();
        let old_ids = names(&w, &old_members);
        let mut new_members = vec![c.creator];
        new_members.extend(c.others.iter().copied());
        let new_ids = names(&w, &new_members);
        let now = w.now();
        if c.branch {
            // ------------------------------------------------------------------ branch
            let expect_ok = new_ids.is_subset(&old_ids);
            let mut kps = vec![];
            for &p in &c.others {
                match w.key_package(p) {
                    Ok(k) => kps.push(k),
                    Err(_) => return,
                }
            }
            ctx.eval();
            let r = w.g(c.creator).branch(b"verif-branch".to_vec(), kps, now);
            match (r, expect_ok) {
                (Ok((g, welcomes)), true) => {
                    ctx.outcome("branch:created");
                    if g.current_epoch() != 1 {
                        ctx.violation("branch-epoch-not-one", format!("branch group starts at epoch {} [{label}]", g.current_epoch()));
                    }
                    for &p in &c.others {
                        let Some(wm) = welcomes.first() else { continue };
                        ctx.eval();
                        match w.g(p).join_subgroup(wm, None, now) {
                            Ok((gj, _)) => {
                                if gj.epoch_authenticator().ok().map(|s| s.as_bytes().to_vec()) != g.epoch_authenticator().ok().map(|s| s.as_bytes().to_vec()) || gj.context() != g.context() {
                                    ctx.violation("branch-joiner-state-differs", format!("{} joined the branch with a different state [{label}]", w.parties[p].name));
                                } else {
                                    ctx.outcome("branch:joined");
                                }
                            }
                            Err(e) => ctx.violation(format!("branch-join-failed|{}", err_name(&e)), format!("{} is in the branch but cannot join it: {e:?} [{label}]", w.parties[p].name)),
                        }
                    }
                    // parties without the old group's resumption secret cannot join
                    if let Some(wm) = welcomes.first() {
                        for &o in &w.outsiders() {
                            ctx.eval();
                            if w.parties[o].client.join_group(None, wm, now).is_ok() {
                                ctx.violation("branch-joined-without-old-state", format!("{} joined the branch with a plain join_group [{label}]", w.parties[o].name));
                            } else {
                                ctx.outcome("branch:outsider-refused");
                            }
                        }
                        // a branch Welcome is not a re-init Welcome
                        for gh in &w.ghosts {
                            ctx.eval();
                            if gh.group.join_subgroup(wm, None, now).is_ok() {
                                ctx.violation("branch-joined-with-stale-state", format!("ex-member {} joined the branch with the state of an earlier epoch [{label}]", gh.name));
                            } else {
                                ctx.outcome("branch:ex-member-refused");
                            }
                        }
                    }
                }
                (Ok(_), false) => ctx.violation("branch-with-non-subset-created", format!("a branch whose members {new_ids:?} are not a subset of {old_ids:?} was created [{label}]")),
                (Err(e), true) => ctx.violation(format!("branch-of-subset-refused|{}", err_name(&e)), format!("a branch with members {new_ids:?} (subset of {old_ids:?}) was refused: {e:?} [{label}]")),
                (Err(e), false) => ctx.outcome(format!("branch:non-subset-refused:{}", err_name(&e))),
            }
            ctx.report.traces += 1;
            return;
        }
        // ---------------------------------------------------------------------- re-init
        let committer = old_members[0];
        let new_suite = mls_rs::CipherSuite::new(if c.variant == 3 { 2 } else { w.cfg.suite });
        let new_ext = if c.variant == 2 { w.context_ext(Some(0x42)) } else { mls_rs::ExtensionList::new() };
        let new_gid = if c.variant == 1 { None } else { Some(REINIT_GROUP_ID.to_vec()) };
        let built = w
            .gm(committer)
            .commit_builder()
            .reinit(new_gid.clone(), mls_rs::ProtocolVersion::MLS_10, new_suite, new_ext.clone())
            .and_then(|b| match now {
                Some(t) => b.commit_time(t).build(),
                None => b.build(),
            });
        let built = match built {
            Ok(b) => b,
            Err(e) => {
                ctx.violation(format!("reinit-commit-failed|{}", err_name(&e)), format!("{e:?} [{label}]"));
                return;
            }
        };
        ctx.goal(match c.variant {
            1 => "reinit-without-group-id",
            2 => "reinit-with-new-extensions",
            3 => "reinit-into-other-suite",
            _ => "reinit-plain",
        });
        for &p in &old_members {
            if p != committer {
                if let Err(e) = w.process(p, &built.commit_message) {
                    ctx.violation(format!("reinit-commit-refused|{}", err_name(&e)), format!("{e:?} [{label}]"));
                    return;
                }
            }
        }
        if w.apply(committer).is_err() {
            return;
        }
        // the old group is frozen
        for &p in &old_members {
            ctx.eval();
            let mut g = w.g(p).clone();
            match g.commit(vec![]) {
                Err(e) if err_name(&e) == "GroupUsedAfterReInit" => ctx.outcome("old-group:commit-refused"),
                Err(e) => ctx.outcome(format!("old-group:commit-refused:{}", err_name(&e))),
                Ok(_) => ctx.violation("old-group-commits-after-reinit", format!("{} can still commit in the old group after the re-init commit [{label}]", w.parties[p].name)),
            }
        }
        let expect_ok = new_ids == old_ids;
        // in another suite everybody continues with a key of the new signature scheme
        let mut new_keys: std::collections::BTreeMap<usize, (mls_rs::crypto::SignatureSecretKey, mls_rs::identity::SigningIdentity)> = Default::default();
        if c.variant == 3 {
            use mls_rs::CipherSuiteProvider;
            for &p in old_members.iter().chain(w.outsiders().iter()) {
                let cs = crate::providers::cs_provider(w.parties[p].which, new_suite).expect("MACHINERY: suite 2");
                let (sk, pk) = cs.signature_key_generate().expect("MACHINERY: keygen");
                let cred = mls_rs::identity::basic::BasicCredential::new(w.parties[p].name.as_bytes().to_vec());
                new_keys.insert(p, (sk, mls_rs::identity::SigningIdentity::new(cred.into_credential(), pk)));
            }
        }
        let rc = |w: &World, p: usize| {
            let (sk, id) = match new_keys.get(&p) {
                Some((sk, id)) => (Some(sk.clone()), Some(id.clone())),
                None => (None, None),
            };
            w.g(p).clone().get_reinit_client(sk, id)
        };
        let Ok(creator_rc) = rc(&w, c.creator) else {
            ctx.violation("no-reinit-client", format!("get_reinit_client failed for a member that processed the re-init [{label}]"));
            return;
        };
        let mut kps: Vec<MlsMessage> = vec![];
        for &p in &c.others {
            let kp = if old_members.contains(&p) {
                rc(&w, p).ok().and_then(|r| r.generate_key_package(now).ok())
            } else {
                w.key_package(p).ok()
            };
            match kp {
                Some(k) => kps.push(k),
                None => return,
            }
        }
        ctx.eval();
        match (creator_rc.commit(kps, Default::default(), now), expect_ok) {
            (Ok((g, welcomes)), true) => {
                ctx.outcome("reinit:created");
                let gid_ok = match &new_gid {
                    Some(id) => g.group_id() == &id[..],
                    None => !g.group_id().is_empty() && g.group_id() != &w.group_id[..],
                };
                if g.current_epoch() != 1 || !gid_ok || g.cipher_suite() != new_suite || g.context().extensions != new_ext {
                    ctx.violation("reinit-group-parameters-wrong", format!("successor has epoch {} / group id {:?} / suite {:?} / extensions {:?}, the re-init proposal said {new_gid:?} / {new_suite:?} / {new_ext:?} [{label}]", g.current_epoch(), g.group_id(), g.cipher_suite(), g.context().extensions));
                }
                // a group with the successor's parameters that is NOT linked to the old group
                // (no re-init PSK) must be refused by ReinitClient::join
                if let Some(&j) = c.others.first() {
                    ctx.eval();
                    let unlinked = (|| {
                        let kp = rc(&w, j).ok()?.generate_key_package(now).ok()?;
                        let (client, _, _) = match new_keys.get(&c.creator) {
                            Some((sk, id)) => make_client(&WorldCfg { suite: 2, ..w.cfg.clone() }, 77, &w.parties[c.creator].name, Some((sk.clone(), id.clone()))),
                            None => make_client(&w.cfg, 77, &w.parties[c.creator].name, Some((w.parties[c.creator].signer.clone(), w.parties[c.creator].identity.clone()))),
                        };
                        let mut ug = client.create_group_with_id(g.group_id().to_vec(), new_ext.clone(), Default::default(), now).ok()?;
                        let out = ug.commit_builder().add_member(kp).ok()?.build().ok()?;
                        ug.apply_pending_commit().ok()?;
                        out.welcome_messages.first().cloned()
                    })();
                    match unlinked {
                        Some(wm) => match rc(&w, j).and_then(|r| r.join(&wm, None, now)) {
                            Ok(_) => ctx.violation("reinit-joined-group-not-linked-to-old-group", format!("{} joined, through its ReinitClient, a group that has the successor's id and parameters but was created without the old group's re-init PSK [{label}]", w.parties[j].name)),
                            Err(e) => {
                                ctx.outcome(format!("reinit:unlinked-group-refused:{}", err_name(&e)));
                                ctx.goal("reinit-unlinked-group-refused");
                            }
                        },
                        None => ctx.outcome("reinit:unlinked-group-not-constructible"),
                    }
                }
                for &p in &c.others {
                    let Some(wm) = welcomes.first() else { continue };
                    ctx.eval();
                    match rc(&w, p).and_then(|r| r.join(wm, None, now)) {
                        Ok((gj, _)) => {
                            if gj.context() != g.context() || gj.epoch_authenticator().ok().map(|s| s.as_bytes().to_vec()) != g.epoch_authenticator().ok().map(|s| s.as_bytes().to_vec()) {
                                ctx.violation("reinit-joiner-state-differs", format!("{} joined the successor with a different state [{label}]", w.parties[p].name));
                            } else {
                                ctx.outcome("reinit:joined");
                            }
                        }
                        Err(e) => ctx.violation(format!("reinit-join-failed|{}", err_name(&e)), format!("{} is a member of the successor but cannot join it: {e:?} [{label}]", w.parties[p].name)),
                    }
                }
                if let Some(wm) = welcomes.first() {
                    for &o in &w.outsiders() {
                        ctx.eval();
                        if w.parties[o].client.join_group(None, wm, now).is_ok() {
                            ctx.violation("reinit-joined-without-old-state", format!("{} joined the successor with a plain join_group [{label}]", w.parties[o].name));
                        } else {
                            ctx.outcome("reinit:outsider-refused");
                        }
                    }
                    // a re-init Welcome cannot be used as a branch Welcome of the old group
                    if let Some(&p) = c.others.first() {
                        ctx.eval();
                        if w.g(p).join_subgroup(wm, None, now).is_ok() {
                            ctx.violation("reinit-welcome-accepted-as-branch", format!("a re-init Welcome was accepted by join_subgroup [{label}]"));
                        } else {
                            ctx.outcome("reinit:not-a-branch-welcome");
                        }
                    }
                }
                let _ = ledger_entry;
            }
            (Ok(_), false) => ctx.violation(
                if new_ids.is_subset(&old_ids) { "reinit-with-strict-subset-created" } else { "reinit-with-foreign-member-created" },
                format!("a successor with members {new_ids:?} was created although the old group has {old_ids:?} [{label}]"),
            ),
            (Err(e), true) => ctx.violation(
                format!("reinit-with-same-members-refused|{}", err_name(&e)),
                format!("the successor has exactly the old members {old_ids:?} but its creation was refused: {e:?} [{label}]"),
            ),
            (Err(e), false) => ctx.outcome(format!("reinit:other-member-set-refused:{}", err_name(&e))),
        }
        ctx.report.traces += 1;
    }));
    let _ = stores::uninstall();
    ctx.report.transitions += 1;
    if r.is_err() {
        let (loc, msg, lib) = take_panic();
        if lib {
            ctx.violation(format!("panic|{loc}"), format!("library panicked: {msg} [{label}]"));
        } else {
            crate::engine::machinery(&format!("harness panic at {loc}: {msg}"));
        }
    }
}

fn permutations(v: &[usize]) -> Vec<Vec<usize>> {
    if v.len() <= 1 {
        return vec![v.to_vec()];
    }
    let mut out = vec![];
    for i in 0..v.len() {
        let mut rest = v.to_vec();
        let x = rest.remove(i);
        for mut p in permutations(&rest) {
            p.insert(0, x);
            out.push(p);
        }
    }
    out
}

fn members_of(seed: &str) -> Vec<usize> {
    match seed {
        "dense3" | "after-rekey" => vec![0, 1, 2],
        "blank-interior3" => vec![0, 2],
        "dense4" | "after-external-commit" => vec![0, 1, 2, 3],
        _ => vec![0, 2, 3],
    }
}

pub fn cases(tier: &str) -> Vec<Case> {
    let quick = tier == "quick";
    let mut out = vec![];
    for seed in SEEDS {
        let members = members_of(seed);
        let outsider = 5usize;
        for branch in [false, true] {
            for &creator in &members {
                let rest: Vec<usize> = members.iter().copied().filter(|m| *m != creator).collect();
                let mut sets: Vec<Vec<usize>> = vec![];
                // every subset of the other members (the full one = equal membership)
                for mask in 0u32..(1 << rest.len()) {
                    sets.push((0..rest.len()).filter(|i| mask & (1 << i) != 0).map(|i| rest[i]).collect());
                }
                // superset by one outsider
                let mut sup = rest.clone();
                sup.push(outsider);
                sets.push(sup);
                // one identity replaced by an outsider
                for i in 0..rest.len() {
                    let mut r = rest.clone();
                    r[i] = outsider;
                    sets.push(r);
                }
                for s in sets {
                    let perms = if quick && s.len() > 2 { vec![s.clone(), s.iter().rev().copied().collect()] } else { permutations(&s) };
                    for others in perms {
                        for variant in if branch { vec![0u8] } else { vec![0u8, 1, 2, 3] } {
                            out.push(Case { seed, branch, creator, others: others.clone(), variant });
                        }
                    }
                }
            }
        }
    }
    out
}

pub fn meta(tier: &str) -> Meta {
    Meta {
        level: "model_checking",
        rule: "old-group gallery (dense 3/4, interior blank leaf 3/4, after a signature re-key, after an external commit) x re-init / branch x every member as creator x every successor member set (all subsets of the other members, superset by an outsider, each member replaced by an outsider) x every key-package order; expected result from the identity-set predicate (re-init: equal, branch: subset); successful successors are joined by every member (ReinitClient::join / join_subgroup) and compared; outsiders, ex-members and cross-used Welcomes must be refused; after the re-init commit every old member must refuse to commit; every re-init case in 4 parameter variants (given group id; none; changed group context extensions; other cipher suite with fresh signature keys): the successor must carry exactly the announced parameters, and a group with the successor's id and parameters that was created without the old group's re-init PSK must be refused by ReinitClient::join; states = cases".into(),
        assumptions: default_assumptions(),
        bounds: bounds_json(&[("cases", json!(cases(tier).len())), ("identities", json!(6))]),
        required_goals: vec!["reinit-plain", "reinit-without-group-id", "reinit-with-new-extensions", "reinit-into-other-suite", "reinit-unlinked-group-refused"],
        min_outcomes: 8,
        workers: 16,
    }
}

pub fn run(ctx: &mut Ctx) {
    let cs = cases(&ctx.tier.clone());
    for (i, c) in cs.iter().enumerate() {
        if !ctx.mine(i) {
            continue;
        }
        ctx.path = vec![i];
        run_case(c, ctx);
        ctx.extra("states", 1);
        if i % 211 == 0 {
            ctx.sample(json!(format!("{c:?}")));
        }
    }
}

pub fn replay(ctx: &mut Ctx, path: &[usize]) {
    let cs = cases(&ctx.tier.clone());
    let idx = *path.last().unwrap_or(&0);
    let Some(c) = cs.get(idx) else { crate::engine::machinery("no such case") };
    println!("case {idx}: {c:?}");
    run_case(c, ctx);
}
