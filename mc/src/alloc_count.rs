//! Counting global allocator: current and peak live bytes, so that a decoder call can be
//! checked for allocations driven by an unchecked length field (C12).

use std::alloc::{GlobalAlloc, Layout, System};
use std::sync::atomic::{AtomicUsize, Ordering};

pub struct Counting;

static CUR: AtomicUsize = AtomicUsize::new(0);
static PEAK: AtomicUsize = AtomicUsize::new(0);
/// largest single request since the last reset (also counts requests that fail)
static BIGGEST: AtomicUsize = AtomicUsize::new(0);

unsafe impl GlobalAlloc for Counting {
    unsafe fn alloc(&self, l: Layout) -> *mut u8 {
        BIGGEST.fetch_max(l.size(), Ordering::Relaxed);
        let p = System.alloc(l);
        if !p.is_null() {
            let c = CUR.fetch_add(l.size(), Ordering::Relaxed) + l.size();
            PEAK.fetch_max(c, Ordering::Relaxed);
        }
        p
    }
    unsafe fn dealloc(&self, p: *mut u8, l: Layout) {
        CUR.fetch_sub(l.size(), Ordering::Relaxed);
        System.dealloc(p, l)
    }
    unsafe fn realloc(&self, p: *mut u8, l: Layout, new: usize) -> *mut u8 {
        BIGGEST.fetch_max(new, Ordering::Relaxed);
        let q = System.realloc(p, l, new);
        if !q.is_null() {
            if new >= l.size() {
                let c = CUR.fetch_add(new - l.size(), Ordering::Relaxed) + (new - l.size());
                PEAK.fetch_max(c, Ordering::Relaxed);
            } else {
                CUR.fetch_sub(l.size() - new, Ordering::Relaxed);
            }
        }
        q
    }
}

/// Start a measurement window: returns the live byte count at this moment.
pub fn window_start() -> usize {
    let c = CUR.load(Ordering::Relaxed);
    PEAK.store(c, Ordering::Relaxed);
    BIGGEST.store(0, Ordering::Relaxed);
    c
}

/// (peak growth over the window start, biggest single request) since `window_start`.
pub fn window_end(start: usize) -> (usize, usize) {
    (PEAK.load(Ordering::Relaxed).saturating_sub(start), BIGGEST.load(Ordering::Relaxed))
}
