//! "Identical state" (DESIGN 1.4a): the canonical VerifState of hook H1, with the repository's
//! read cache folded into an *effective* view of the stored epoch records.

use std::collections::BTreeMap;

use crate::stores;
use crate::world::G;

#[derive(Clone, Debug, PartialEq, Eq)]
pub struct Eff {
    pub parts: BTreeMap<String, Vec<u8>>,
    /// epoch id -> normal form of the record a read would see (pending insert/update, else stored)
    pub epochs: BTreeMap<u64, Vec<u8>>,
    /// ids of epochs waiting to be inserted on the next write
    pub pending_inserts: Vec<u64>,
}

/// Needs the store table installed.
pub fn effective(g: &G, party: u32) -> Eff {
    let st = g.verif_state();
    let gid = g.group_id().to_vec();
    let stored: BTreeMap<u64, Vec<u8>> = stores::peek(party, |s| s.groups.get(&gid).map(|d| d.epochs.clone()).unwrap_or_default());
    let mut epochs = BTreeMap::new();
    for (id, bytes) in stored {
        let nf = g.verif_prior_epoch_normal_form(&bytes).unwrap_or_else(|| [b"<undecodable>".to_vec(), bytes].concat());
        epochs.insert(id, nf);
    }
    let mut pending_inserts = vec![];
    for (id, (is_insert, nf)) in st.pending_epochs {
        if is_insert {
            pending_inserts.push(id);
        } else if !epochs.contains_key(&id) {
            // an update for a record that is no longer stored is a no-op on write
            continue;
        }
        epochs.insert(id, nf);
    }
    Eff { parts: st.parts, epochs, pending_inserts }
}

pub fn diff(a: &Eff, b: &Eff, ignore: &[&str]) -> Vec<String> {
    let mut out = vec![];
    for k in a.parts.keys().chain(b.parts.keys()) {
        if ignore.contains(&k.as_str()) || out.contains(k) {
            continue;
        }
        if a.parts.get(k) != b.parts.get(k) {
            out.push(k.clone());
        }
    }
    for k in a.epochs.keys().chain(b.epochs.keys()) {
        let name = format!("epoch_record/{k}");
        if a.epochs.get(k) != b.epochs.get(k) && !out.contains(&name) {
            out.push(name);
        }
    }
    if a.pending_inserts != b.pending_inserts {
        out.push("pending_epoch_inserts".into());
    }
    out
}

/// Class names of differing parts (epoch record ids dropped), for signatures.
pub fn diff_classes(d: &[String]) -> String {
    let mut v: Vec<String> = d.iter().map(|x| x.split('/').next().unwrap_or("").to_string()).collect();
    v.sort();
    v.dedup();
    v.join("+")
}
