//! Crypto providers owned by the harness.
//!
//! `DynProvider` gives the three shipped providers one Rust type (so that parties of one world
//! may use different providers); every call is delegated unchanged. A recording layer appends
//! (party, kind, data) records for HPKE seals, AEAD seals and random draws to a process-global
//! log (mls-rs calls providers from rayon workers, so the log is behind a mutex).

use std::sync::Mutex;

use mls_rs_core::crypto::{
    CipherSuite, CipherSuiteProvider, CryptoProvider, HpkeCiphertext, HpkeContextR, HpkeContextS,
    HpkePsk, HpkePublicKey, HpkeSecretKey, SignaturePublicKey, SignatureSecretKey,
};
use mls_rs_core::error::IntoAnyError;
use mls_rs_crypto_awslc::AwsLcCryptoProvider;
use mls_rs_crypto_openssl::OpensslCryptoProvider;
use mls_rs_crypto_rustcrypto::RustCryptoProvider;
use zeroize::Zeroizing;

#[derive(Debug)]
pub struct HErr(pub String);
impl std::fmt::Display for HErr {
    fn fmt(&self, f: &mut std::fmt::Formatter<'_>) -> std::fmt::Result {
        write!(f, "{}", self.0)
    }
}
impl std::error::Error for HErr {}
impl IntoAnyError for HErr {
    fn into_dyn_error(self) -> Result<Box<dyn std::error::Error + Send + Sync>, Self> {
        Ok(Box::new(self))
    }
}
fn herr<E: std::fmt::Debug>(e: E) -> HErr {
    HErr(format!("{e:?}"))
}

#[derive(Clone, Copy, Debug, PartialEq, Eq, Hash, PartialOrd, Ord)]
pub enum Which {
    Rust,
    Ossl,
    Awslc,
}

impl Which {
    pub fn name(&self) -> &'static str {
        match self {
            Which::Rust => "rustcrypto",
            Which::Ossl => "openssl",
            Which::Awslc => "awslc",
        }
    }
    pub fn all() -> [Which; 3] {
        [Which::Rust, Which::Ossl, Which::Awslc]
    }
}

#[derive(Clone, Debug, PartialEq, Eq)]
pub enum Rec {
    HpkeSeal { party: u32, pk: Vec<u8>, info_len: usize, pt_len: usize },
    AeadSeal { party: u32, key: Vec<u8>, nonce: Vec<u8>, aad_len: usize, pt_len: usize },
    Random { party: u32, bytes: Vec<u8> },
}

static LOG: Mutex<Vec<Rec>> = Mutex::new(Vec::new());
static RECORDING: std::sync::atomic::AtomicBool = std::sync::atomic::AtomicBool::new(false);

pub fn log_start() {
    LOG.lock().unwrap().clear();
    RECORDING.store(true, std::sync::atomic::Ordering::SeqCst);
}
pub fn log_take() -> Vec<Rec> {
    RECORDING.store(false, std::sync::atomic::Ordering::SeqCst);
    std::mem::take(&mut *LOG.lock().unwrap())
}
fn rec(r: impl FnOnce() -> Rec) {
    if RECORDING.load(std::sync::atomic::Ordering::SeqCst) {
        LOG.lock().unwrap().push(r());
    }
}

type RCs = <RustCryptoProvider as CryptoProvider>::CipherSuiteProvider;
type OCs = <OpensslCryptoProvider as CryptoProvider>::CipherSuiteProvider;
type ACs = <AwsLcCryptoProvider as CryptoProvider>::CipherSuiteProvider;

#[derive(Clone)]
pub struct DynProvider {
    pub which: Which,
    pub party: u32,
}

impl DynProvider {
    pub fn new(which: Which, party: u32) -> Self {
        Self { which, party }
    }
}

#[derive(Clone)]
enum Inner {
    R(RCs),
    O(OCs),
    A(ACs),
}

#[derive(Clone)]
pub struct DynCs {
    inner: Inner,
    party: u32,
}

impl CryptoProvider for DynProvider {
    type CipherSuiteProvider = DynCs;

    fn supported_cipher_suites(&self) -> Vec<CipherSuite> {
        match self.which {
            Which::Rust => RustCryptoProvider::default().supported_cipher_suites(),
            Which::Ossl => OpensslCryptoProvider::default().supported_cipher_suites(),
            Which::Awslc => AwsLcCryptoProvider::default().supported_cipher_suites(),
        }
    }

    fn cipher_suite_provider(&self, cs: CipherSuite) -> Option<DynCs> {
        let inner = match self.which {
            Which::Rust => Inner::R(RustCryptoProvider::default().cipher_suite_provider(cs)?),
            Which::Ossl => Inner::O(OpensslCryptoProvider::default().cipher_suite_provider(cs)?),
            Which::Awslc => Inner::A(AwsLcCryptoProvider::default().cipher_suite_provider(cs)?),
        };
        Some(DynCs { inner, party: self.party })
    }
}

pub fn cs_provider(which: Which, cs: CipherSuite) -> Option<DynCs> {
    DynProvider::new(which, u32::MAX).cipher_suite_provider(cs)
}

pub enum CtxS {
    R(<RCs as CipherSuiteProvider>::HpkeContextS),
    O(<OCs as CipherSuiteProvider>::HpkeContextS),
    A(<ACs as CipherSuiteProvider>::HpkeContextS),
}
pub enum CtxR {
    R(<RCs as CipherSuiteProvider>::HpkeContextR),
    O(<OCs as CipherSuiteProvider>::HpkeContextR),
    A(<ACs as CipherSuiteProvider>::HpkeContextR),
}

impl HpkeContextS for CtxS {
    type Error = HErr;
    fn seal(&mut self, aad: Option<&[u8]>, data: &[u8]) -> Result<Vec<u8>, HErr> {
        match self {
            CtxS::R(c) => c.seal(aad, data).map_err(herr),
            CtxS::O(c) => c.seal(aad, data).map_err(herr),
            CtxS::A(c) => c.seal(aad, data).map_err(herr),
        }
    }
    fn export(&self, ctx: &[u8], len: usize) -> Result<Zeroizing<Vec<u8>>, HErr> {
        match self {
            CtxS::R(c) => c.export(ctx, len).map_err(herr),
            CtxS::O(c) => c.export(ctx, len).map_err(herr),
            CtxS::A(c) => c.export(ctx, len).map_err(herr),
        }
    }
}
impl HpkeContextR for CtxR {
    type Error = HErr;
    fn open(&mut self, aad: Option<&[u8]>, ct: &[u8]) -> Result<Zeroizing<Vec<u8>>, HErr> {
        match self {
            CtxR::R(c) => c.open(aad, ct).map_err(herr),
            CtxR::O(c) => c.open(aad, ct).map_err(herr),
            CtxR::A(c) => c.open(aad, ct).map_err(herr),
        }
    }
    fn export(&self, ctx: &[u8], len: usize) -> Result<Zeroizing<Vec<u8>>, HErr> {
        match self {
            CtxR::R(c) => c.export(ctx, len).map_err(herr),
            CtxR::O(c) => c.export(ctx, len).map_err(herr),
            CtxR::A(c) => c.export(ctx, len).map_err(herr),
        }
    }
}

macro_rules! d {
    ($self:ident, $p:ident => $e:expr) => {
        match &$self.inner {
            Inner::R($p) => $e.map_err(herr),
            Inner::O($p) => $e.map_err(herr),
            Inner::A($p) => $e.map_err(herr),
        }
    };
}
macro_rules! dn {
    ($self:ident, $p:ident => $e:expr) => {
        match &$self.inner {
            Inner::R($p) => $e,
            Inner::O($p) => $e,
            Inner::A($p) => $e,
        }
    };
}

impl CipherSuiteProvider for DynCs {
    type Error = HErr;
    type HpkeContextS = CtxS;
    type HpkeContextR = CtxR;

    fn cipher_suite(&self) -> CipherSuite {
        dn!(self, p => p.cipher_suite())
    }
    fn hash(&self, data: &[u8]) -> Result<Vec<u8>, HErr> {
        d!(self, p => p.hash(data))
    }
    fn mac(&self, key: &[u8], data: &[u8]) -> Result<Vec<u8>, HErr> {
        d!(self, p => p.mac(key, data))
    }
    fn aead_seal(
        &self,
        key: &[u8],
        data: &[u8],
        aad: Option<&[u8]>,
        nonce: &[u8],
    ) -> Result<Vec<u8>, HErr> {
        rec(|| Rec::AeadSeal {
            party: self.party,
            key: key.to_vec(),
            nonce: nonce.to_vec(),
            aad_len: aad.map(|a| a.len()).unwrap_or(0),
            pt_len: data.len(),
        });
        d!(self, p => p.aead_seal(key, data, aad, nonce))
    }
    fn aead_open(
        &self,
        key: &[u8],
        ct: &[u8],
        aad: Option<&[u8]>,
        nonce: &[u8],
    ) -> Result<Zeroizing<Vec<u8>>, HErr> {
        d!(self, p => p.aead_open(key, ct, aad, nonce))
    }
    fn aead_key_size(&self) -> usize {
        dn!(self, p => p.aead_key_size())
    }
    fn aead_nonce_size(&self) -> usize {
        dn!(self, p => p.aead_nonce_size())
    }
    fn kdf_extract(&self, salt: &[u8], ikm: &[u8]) -> Result<Zeroizing<Vec<u8>>, HErr> {
        d!(self, p => p.kdf_extract(salt, ikm))
    }
    fn kdf_expand(&self, prk: &[u8], info: &[u8], len: usize) -> Result<Zeroizing<Vec<u8>>, HErr> {
        d!(self, p => p.kdf_expand(prk, info, len))
    }
    fn kdf_extract_size(&self) -> usize {
        dn!(self, p => p.kdf_extract_size())
    }
    fn hpke_seal(
        &self,
        remote_key: &HpkePublicKey,
        info: &[u8],
        aad: Option<&[u8]>,
        pt: &[u8],
    ) -> Result<HpkeCiphertext, HErr> {
        rec(|| Rec::HpkeSeal {
            party: self.party,
            pk: remote_key.to_vec(),
            info_len: info.len(),
            pt_len: pt.len(),
        });
        d!(self, p => p.hpke_seal(remote_key, info, aad, pt))
    }
    fn hpke_seal_psk(
        &self,
        remote_key: &HpkePublicKey,
        info: &[u8],
        aad: Option<&[u8]>,
        pt: &[u8],
        psk: HpkePsk<'_>,
    ) -> Result<HpkeCiphertext, HErr> {
        rec(|| Rec::HpkeSeal {
            party: self.party,
            pk: remote_key.to_vec(),
            info_len: info.len(),
            pt_len: pt.len(),
        });
        d!(self, p => p.hpke_seal_psk(remote_key, info, aad, pt, psk.clone()))
    }
    fn hpke_open(
        &self,
        ct: &HpkeCiphertext,
        sk: &HpkeSecretKey,
        pk: &HpkePublicKey,
        info: &[u8],
        aad: Option<&[u8]>,
    ) -> Result<Zeroizing<Vec<u8>>, HErr> {
        d!(self, p => p.hpke_open(ct, sk, pk, info, aad))
    }
    fn hpke_open_psk(
        &self,
        ct: &HpkeCiphertext,
        sk: &HpkeSecretKey,
        pk: &HpkePublicKey,
        info: &[u8],
        aad: Option<&[u8]>,
        psk: HpkePsk<'_>,
    ) -> Result<Zeroizing<Vec<u8>>, HErr> {
        d!(self, p => p.hpke_open_psk(ct, sk, pk, info, aad, psk.clone()))
    }
    fn hpke_setup_s(
        &self,
        remote_key: &HpkePublicKey,
        info: &[u8],
    ) -> Result<(Vec<u8>, CtxS), HErr> {
        match &self.inner {
            Inner::R(p) => p.hpke_setup_s(remote_key, info).map(|(k, c)| (k, CtxS::R(c))).map_err(herr),
            Inner::O(p) => p.hpke_setup_s(remote_key, info).map(|(k, c)| (k, CtxS::O(c))).map_err(herr),
            Inner::A(p) => p.hpke_setup_s(remote_key, info).map(|(k, c)| (k, CtxS::A(c))).map_err(herr),
        }
    }
    fn hpke_setup_r(
        &self,
        kem_output: &[u8],
        sk: &HpkeSecretKey,
        pk: &HpkePublicKey,
        info: &[u8],
    ) -> Result<CtxR, HErr> {
        match &self.inner {
            Inner::R(p) => p.hpke_setup_r(kem_output, sk, pk, info).map(CtxR::R).map_err(herr),
            Inner::O(p) => p.hpke_setup_r(kem_output, sk, pk, info).map(CtxR::O).map_err(herr),
            Inner::A(p) => p.hpke_setup_r(kem_output, sk, pk, info).map(CtxR::A).map_err(herr),
        }
    }
    fn kem_derive(&self, ikm: &[u8]) -> Result<(HpkeSecretKey, HpkePublicKey), HErr> {
        d!(self, p => p.kem_derive(ikm))
    }
    fn kem_generate(&self) -> Result<(HpkeSecretKey, HpkePublicKey), HErr> {
        d!(self, p => p.kem_generate())
    }
    fn kem_public_key_validate(&self, key: &HpkePublicKey) -> Result<(), HErr> {
        d!(self, p => p.kem_public_key_validate(key))
    }
    fn random_bytes(&self, out: &mut [u8]) -> Result<(), HErr> {
        let r = d!(self, p => p.random_bytes(out));
        rec(|| Rec::Random { party: self.party, bytes: out.to_vec() });
        r
    }
    fn signature_key_generate(&self) -> Result<(SignatureSecretKey, SignaturePublicKey), HErr> {
        d!(self, p => p.signature_key_generate())
    }
    fn signature_key_derive_public(
        &self,
        sk: &SignatureSecretKey,
    ) -> Result<SignaturePublicKey, HErr> {
        d!(self, p => p.signature_key_derive_public(sk))
    }
    fn sign(&self, sk: &SignatureSecretKey, data: &[u8]) -> Result<Vec<u8>, HErr> {
        d!(self, p => p.sign(sk, data))
    }
    fn verify(&self, pk: &SignaturePublicKey, sig: &[u8], data: &[u8]) -> Result<(), HErr> {
        d!(self, p => p.verify(pk, sig, data))
    }
}
