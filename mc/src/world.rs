//! The world: real mls-rs parties with harness-owned providers, forkable by clone.

use std::collections::BTreeMap;
use std::time::Duration;

use mls_rs::client_builder::{
    BaseConfig, ClientBuilder, WithCryptoProvider, WithGroupStateStorage, WithIdentityProvider,
    WithKeyPackageRepo, WithMlsRules, WithPskStore,
};
use mls_rs::error::MlsError;
use mls_rs::group::proposal::{CustomProposal, ProposalType};
use mls_rs::group::{CommitEffect, CommitOutput, ExportedTree, ReceivedMessage};
use mls_rs::identity::basic::{BasicCredential, BasicIdentityProvider};
use mls_rs::identity::SigningIdentity;
use mls_rs::mls_rules::{CommitOptions, DefaultMlsRules, EncryptionOptions};
use mls_rs::psk::ExternalPskId;
use mls_rs::time::MlsTime;
use mls_rs::{
    CipherSuite, CipherSuiteProvider, Client, CryptoProvider, ExtensionList, Group, MlsMessage,
};
use mls_rs_core::crypto::SignatureSecretKey;
use mls_rs_core::extension::{Extension, ExtensionType};
use mls_rs_core::identity::{CredentialType, IdentityProvider, MemberValidationContext};

use crate::providers::{DynProvider, HErr, Which};
use crate::stores::{self, GsStore, KpStore, PartyStores, PskStore, StoreTable};

pub const CUSTOM_EXT: u16 = 0xF042;
pub const CUSTOM_PROP: u16 = 0xF043;
/// The world clock: real time at process start, passed explicitly to every API that accepts an
/// `MlsTime` (the few internal call sites of mls-rs that read the system clock themselves then
/// agree with it; key package lifetimes span a year, so runs of hours are unaffected).
pub static CLOCK0: std::sync::LazyLock<u64> = std::sync::LazyLock::new(|| MlsTime::now().seconds_since_epoch());

// ------------------------------------------------------------------------------------------
// identity provider with harness-decided verdicts
// ------------------------------------------------------------------------------------------

/// (validator party, identity bytes) pairs the validator party's identity provider rejects.
static REJECT: std::sync::Mutex<Vec<(u32, Vec<u8>)>> = std::sync::Mutex::new(Vec::new());

pub fn identity_reject_set(v: Vec<(u32, Vec<u8>)>) {
    *REJECT.lock().unwrap() = v;
}

/// Credential type of the harness's second credential kind (checks/c10z.rs).
pub const CUSTOM_CRED: u16 = 0xF0C1;

/// Parties whose clients advertise CUSTOM_CRED in their capabilities (empty except in c10z).
static WIDE: std::sync::Mutex<Vec<u32>> = std::sync::Mutex::new(Vec::new());

pub fn wide_credential_parties(v: Vec<u32>) {
    *WIDE.lock().unwrap() = v;
}

#[derive(Clone, Debug)]
pub struct HIdentity {
    pub party: u32,
}

impl HIdentity {
    fn check(&self, id: &SigningIdentity) -> Result<(), HErr> {
        let name = id
            .credential
            .as_basic()
            .map(|b| b.identifier.clone())
            .or_else(|| id.credential.as_custom().filter(|c| c.credential_type == CredentialType::new(CUSTOM_CRED)).map(|c| c.data.clone()))
            .ok_or_else(|| HErr("not a basic credential".into()))?;
        if REJECT.lock().unwrap().iter().any(|(p, n)| *p == self.party && *n == name) {
            return Err(HErr(format!("identity rejected by party {}", self.party)));
        }
        Ok(())
    }
}

impl IdentityProvider for HIdentity {
    type Error = HErr;

    fn validate_member(
        &self,
        signing_identity: &SigningIdentity,
        timestamp: Option<MlsTime>,
        context: MemberValidationContext<'_>,
    ) -> Result<(), HErr> {
        self.check(signing_identity)?;
        if signing_identity.credential.as_custom().is_some() {
            return Ok(());
        }
        BasicIdentityProvider
            .validate_member(signing_identity, timestamp, context)
            .map_err(|e| HErr(format!("{e:?}")))
    }

    fn validate_external_sender(
        &self,
        signing_identity: &SigningIdentity,
        timestamp: Option<MlsTime>,
        extensions: Option<&ExtensionList>,
    ) -> Result<(), HErr> {
        self.check(signing_identity)?;
        BasicIdentityProvider
            .validate_external_sender(signing_identity, timestamp, extensions)
            .map_err(|e| HErr(format!("{e:?}")))
    }

    fn identity(&self, signing_identity: &SigningIdentity, extensions: &ExtensionList) -> Result<Vec<u8>, HErr> {
        if let Some(c) = signing_identity.credential.as_custom() {
            return Ok(c.data.clone());
        }
        BasicIdentityProvider
            .identity(signing_identity, extensions)
            .map_err(|e| HErr(format!("{e:?}")))
    }

    fn valid_successor(
        &self,
        predecessor: &SigningIdentity,
        successor: &SigningIdentity,
        extensions: &ExtensionList,
    ) -> Result<bool, HErr> {
        if predecessor.credential.as_custom().is_some() || successor.credential.as_custom().is_some() {
            return Ok(self.identity(predecessor, extensions)? == self.identity(successor, extensions)?);
        }
        BasicIdentityProvider
            .valid_successor(predecessor, successor, extensions)
            .map_err(|e| HErr(format!("{e:?}")))
    }

    fn supported_types(&self) -> Vec<CredentialType> {
        let mut v = BasicIdentityProvider.supported_types();
        if WIDE.lock().unwrap().contains(&self.party) {
            v.push(CredentialType::new(CUSTOM_CRED));
        }
        v
    }
}

// ------------------------------------------------------------------------------------------

pub type Cfg = WithMlsRules<
    DefaultMlsRules,
    WithCryptoProvider<
        DynProvider,
        WithIdentityProvider<
            HIdentity,
            WithGroupStateStorage<GsStore, WithPskStore<PskStore, WithKeyPackageRepo<KpStore, BaseConfig>>>,
        >,
    >,
>;

pub type G = Group<Cfg>;

#[derive(Clone, Debug, PartialEq, Eq)]
pub struct WorldCfg {
    pub suite: u16,
    pub tree_ext: bool,
    pub single_welcome: bool,
    pub path_required: bool,
    pub encrypt_handshake: bool,
    pub retention: usize,
    /// provider per party id (cycled)
    pub providers: Vec<Which>,
    /// a re-joining party keeps the epoch records of its earlier membership (C07 scenario)
    pub keep_stale_store: bool,
    /// the group context carries an ExternalSendersExt naming `World::ext_signer` (C16)
    pub external_senders: bool,
    /// padding of private messages: 0 none, 1 step function (the library default), 2 Padme
    pub padding: u8,
}

impl Default for WorldCfg {
    fn default() -> Self {
        Self {
            suite: 1,
            tree_ext: true,
            single_welcome: true,
            path_required: false,
            encrypt_handshake: false,
            retention: 3,
            providers: vec![Which::Rust],
            keep_stale_store: false,
            external_senders: false,
            padding: 0,
        }
    }
}

impl WorldCfg {
    pub fn label(&self) -> String {
        format!(
            "cs{}{}{}{}{}r{}[{}]{}",
            self.suite,
            if self.tree_ext { "+tree" } else { "-tree" },
            if self.single_welcome { "+1w" } else { "-1w" },
            if self.path_required { "+path" } else { "-path" },
            if self.encrypt_handshake { "+enc" } else { "-enc" },
            self.retention,
            self.providers.iter().map(|w| &w.name()[..1]).collect::<Vec<_>>().join(""),
            match self.padding {
                1 => "+step",
                2 => "+padme",
                _ => "",
            }
        )
    }
    pub fn rules(&self) -> DefaultMlsRules {
        DefaultMlsRules::new()
            .with_commit_options(
                CommitOptions::new()
                    .with_path_required(self.path_required)
                    .with_ratchet_tree_extension(self.tree_ext)
                    .with_single_welcome_message(self.single_welcome)
                    .with_allow_external_commit(true),
            )
            .with_encryption_options(EncryptionOptions::new(
                self.encrypt_handshake,
                match self.padding {
                    1 => mls_rs::client_builder::PaddingMode::StepFunction,
                    2 => mls_rs::client_builder::PaddingMode::Padme,
                    _ => mls_rs::client_builder::PaddingMode::None,
                },
            ))
    }
}

#[derive(Clone)]
pub struct Party {
    pub id: u32,
    pub name: String,
    pub which: Which,
    pub client: Client<Cfg>,
    pub group: Option<G>,
    pub signer: SignatureSecretKey,
    pub identity: SigningIdentity,
    /// number of signature re-keys so far
    pub rekeys: u32,
    pub pending_rekey: Option<(SignatureSecretKey, SigningIdentity)>,
}

pub struct Built {
    pub out: CommitOutput,
    /// (party, key package message) for every member added by value in this commit
    pub added: Vec<(usize, MlsMessage)>,
}

#[derive(Clone, Debug, PartialEq, Eq)]
pub struct LedgerEntry {
    pub context: Vec<u8>,
    pub roster: Vec<(u32, Vec<u8>, Vec<u8>)>,
    pub tree: Vec<u8>,
    pub authenticator: Vec<u8>,
    pub exports: Vec<Vec<u8>>,
    pub first_by: String,
}

#[derive(Clone)]
pub struct Ghost {
    pub name: String,
    pub party: u32,
    pub group: G,
    /// whether it processed the commit that removed it
    pub saw_removal: bool,
    pub removed_at_epoch: u64,
}

#[derive(Clone)]
pub struct World {
    pub cfg: WorldCfg,
    pub parties: Vec<Party>,
    pub stores: StoreTable,
    pub ledger: BTreeMap<(Vec<u8>, u64), LedgerEntry>,
    pub ghosts: Vec<Ghost>,
    pub trail: Vec<String>,
    pub clock: u64,
    pub group_id: Vec<u8>,
    /// signing key and identity of the external sender named in the group context (C16)
    pub ext_signer: Option<(SignatureSecretKey, SigningIdentity)>,
    /// leaf private key of each member as of the last epoch change (C09: a replaced key is gone)
    pub leaf_sk: BTreeMap<usize, Vec<u8>>,
}

pub fn time(secs: u64) -> MlsTime {
    MlsTime::from_duration_since_epoch(Duration::from_secs(secs))
}

pub fn custom_ext(val: u8) -> ExtensionList {
    let mut l = ExtensionList::new();
    l.set(Extension::new(ExtensionType::new(CUSTOM_EXT), vec![val]));
    l
}

pub fn make_client(cfg: &WorldCfg, id: u32, name: &str, signer: Option<(SignatureSecretKey, SigningIdentity)>) -> (Client<Cfg>, SignatureSecretKey, SigningIdentity) {
    let which = cfg.providers[(id as usize) % cfg.providers.len()];
    let provider = DynProvider::new(which, id);
    let suite = CipherSuite::new(cfg.suite);
    let (sk, identity) = match signer {
        Some(x) => x,
        None => {
            let cs = provider.cipher_suite_provider(suite).expect("MACHINERY: suite unsupported by provider");
            let (sk, pk) = cs.signature_key_generate().expect("MACHINERY: keygen");
            let cred = BasicCredential::new(name.as_bytes().to_vec());
            (sk, SigningIdentity::new(cred.into_credential(), pk))
        }
    };
    let client = ClientBuilder::new()
        .key_package_repo(KpStore(id))
        .psk_store(PskStore(id))
        .group_state_storage(GsStore(id))
        .identity_provider(HIdentity { party: id })
        .crypto_provider(provider)
        .mls_rules(cfg.rules())
        .extension_type(ExtensionType::new(CUSTOM_EXT))
        .custom_proposal_type(ProposalType::new(CUSTOM_PROP))
        .signing_identity(identity.clone(), sk.clone(), suite)
        .build();
    (client, sk, identity)
}

/// By-value / by-reference proposal atoms of the history alphabet.
#[derive(Clone, Debug, PartialEq, Eq, PartialOrd, Ord, Hash)]
pub enum Prop {
    Add(usize),
    Remove(usize),
    ExternalPsk(u8),
    ResumptionPsk(u64),
    Gce(u8),
    Custom(u8),
    /// re-initialisation into group "verif-group-2", same suite
    ReInit,
}

pub const REINIT_GROUP_ID: &[u8] = b"verif-group-2";

#[derive(Clone, Debug, Default, PartialEq, Eq, PartialOrd, Ord, Hash)]
pub struct CommitSpec {
    pub props: Vec<Prop>,
    /// committer changes its signature key in this commit
    pub rekey: bool,
    pub aad: Vec<u8>,
}

impl World {
    pub fn new(cfg: WorldCfg, n: usize) -> World {
        let mut parties = Vec::new();
        let mut table = StoreTable::new();
        for i in 0..n {
            let name = format!("P{i}");
            let (client, signer, identity) = make_client(&cfg, i as u32, &name, None);
            table.insert(i as u32, PartyStores::new(cfg.retention));
            let which = cfg.providers[i % cfg.providers.len()];
            parties.push(Party { id: i as u32, name, which, client, group: None, signer, identity, rekeys: 0, pending_rekey: None });
        }
        let ext_signer = cfg.external_senders.then(|| {
            let cs = DynProvider::new(cfg.providers[0], 900).cipher_suite_provider(CipherSuite::new(cfg.suite)).expect("MACHINERY: suite");
            let (sk, pk) = cs.signature_key_generate().expect("MACHINERY: keygen");
            (sk, SigningIdentity::new(BasicCredential::new(b"observer".to_vec()).into_credential(), pk))
        });
        World {
            cfg,
            parties,
            stores: table,
            ledger: BTreeMap::new(),
            ghosts: Vec::new(),
            trail: Vec::new(),
            clock: *CLOCK0,
            group_id: b"verif-group".to_vec(),
            ext_signer,
            leaf_sk: BTreeMap::new(),
        }
    }

    /// Run `f` with this world's store table installed (any panic is caught and returned).
    pub fn run<R>(&mut self, f: impl FnOnce(&mut World) -> R) -> std::thread::Result<R> {
        stores::install(std::mem::take(&mut self.stores));
        let r = std::panic::catch_unwind(std::panic::AssertUnwindSafe(|| f(self)));
        self.stores = stores::uninstall();
        r
    }

    pub fn now(&self) -> Option<MlsTime> {
        Some(time(self.clock))
    }

    pub fn g(&self, p: usize) -> &G {
        self.parties[p].group.as_ref().expect("MACHINERY: party has no group")
    }
    pub fn gm(&mut self, p: usize) -> &mut G {
        self.parties[p].group.as_mut().expect("MACHINERY: party has no group")
    }
    pub fn is_member(&self, p: usize) -> bool {
        self.parties[p].group.is_some()
    }
    pub fn members(&self) -> Vec<usize> {
        (0..self.parties.len()).filter(|&p| self.is_member(p)).collect()
    }
    pub fn outsiders(&self) -> Vec<usize> {
        (0..self.parties.len()).filter(|&p| !self.is_member(p)).collect()
    }
    pub fn leaf_of(&self, p: usize) -> u32 {
        self.g(p).current_member_index()
    }
    /// party whose current leaf index (in the view of `viewer`) is `leaf`
    pub fn party_at_leaf(&self, leaf: u32) -> Option<usize> {
        self.members().into_iter().find(|&p| self.leaf_of(p) == leaf)
    }
    pub fn epoch(&self) -> u64 {
        self.members().iter().map(|&p| self.g(p).current_epoch()).max().unwrap_or(0)
    }

    pub fn log(&mut self, s: impl Into<String>) {
        self.trail.push(s.into());
    }

    // ---------------------------------------------------------------- primitives

    /// Group context extensions carrying custom extension value `v` (None: without it) and,
    /// if configured, the external senders list.
    pub fn context_ext(&self, v: Option<u8>) -> ExtensionList {
        let mut l = match v {
            Some(v) => custom_ext(v),
            None => ExtensionList::new(),
        };
        if let Some((_, id)) = &self.ext_signer {
            l.set_from(mls_rs::extension::built_in::ExternalSendersExt::new(vec![id.clone()])).expect("MACHINERY: ext");
        }
        l
    }

    pub fn create(&mut self, p: usize) -> Result<(), MlsError> {
        let g = self.parties[p].client.create_group_with_id(
            self.group_id.clone(),
            self.context_ext(None),
            ExtensionList::new(),
            self.now(),
        )?;
        self.parties[p].group = Some(g);
        self.log(format!("create({})", self.parties[p].name));
        Ok(())
    }

    pub fn key_package(&mut self, p: usize) -> Result<MlsMessage, MlsError> {
        self.parties[p]
            .client
            .generate_key_package_message(ExtensionList::new(), ExtensionList::new(), self.now())
    }

    pub fn psk_id(id: u8) -> ExternalPskId {
        ExternalPskId::new(vec![b'p', b's', b'k', id])
    }

    /// Install an external PSK value at a party.
    pub fn set_psk(&mut self, p: usize, id: u8, value: Vec<u8>) {
        self.stores.get_mut(&(p as u32)).unwrap().psks.insert(Self::psk_id(id).to_vec(), value);
    }

    /// Build a commit (left pending). Key packages for added parties are generated here.
    pub fn commit(&mut self, by: usize, spec: &CommitSpec) -> Result<Built, MlsError> {
        let mut kps = Vec::new();
        let mut added = Vec::new();
        for pr in &spec.props {
            if let Prop::Add(x) = pr {
                let kp = self.key_package(*x)?;
                added.push((*x, kp.clone()));
                kps.push(kp);
            }
        }
        let now = self.now();
        let mut rekey = None;
        if spec.rekey {
            let party = &self.parties[by];
            let cs = party.client_cs(&self.cfg);
            let (sk, pk) = cs.signature_key_generate().map_err(|e| MlsError::CryptoProviderError(mls_rs_core::error::IntoAnyError::into_any_error(e)))?;
            let cred = BasicCredential::new(party.name.as_bytes().to_vec());
            rekey = Some((sk, SigningIdentity::new(cred.into_credential(), pk)));
        }
        let leaves: Vec<(usize, u32)> = spec
            .props
            .iter()
            .filter_map(|pr| if let Prop::Remove(x) = pr { Some((*x, self.leaf_of(*x))) } else { None })
            .collect();
        let suite = CipherSuite::new(self.cfg.suite);
        let gce: Vec<ExtensionList> = spec.props.iter().map(|pr| if let Prop::Gce(v) = pr { self.context_ext(Some(*v)) } else { ExtensionList::new() }).collect();
        let mut gce = gce.into_iter();
        let g = self.gm(by);
        let mut b = g.commit_builder();
        let mut kps = kps.into_iter();
        for pr in &spec.props {
            let ext = gce.next().unwrap();
            b = match pr {
                Prop::Add(_) => b.add_member(kps.next().unwrap())?,
                Prop::Remove(x) => b.remove_member(leaves.iter().find(|(p, _)| p == x).unwrap().1)?,
                Prop::ExternalPsk(id) => b.add_external_psk(Self::psk_id(*id))?,
                Prop::ResumptionPsk(e) => b.add_resumption_psk(*e)?,
                Prop::Gce(_) => b.set_group_context_ext(ext)?,
                Prop::Custom(v) => b.custom_proposal(CustomProposal::new(ProposalType::new(CUSTOM_PROP), vec![*v])),
                Prop::ReInit => b.reinit(Some(REINIT_GROUP_ID.to_vec()), mls_rs::ProtocolVersion::MLS_10, suite, ExtensionList::new())?,
            };
        }
        if let Some((sk, id)) = &rekey {
            b = b.set_new_signing_identity(sk.clone(), id.clone());
        }
        if let Some(t) = now {
            b = b.commit_time(t);
        }
        let out = b.authenticated_data(spec.aad.clone()).build()?;
        self.parties[by].pending_rekey = rekey;
        Ok(Built { out, added })
    }

    /// Returns the proposal message and, for an Add, the key package message used.
    pub fn propose(&mut self, by: usize, pr: &Prop) -> Result<(MlsMessage, Option<MlsMessage>), MlsError> {
        let kp = if let Prop::Add(x) = pr { Some(self.key_package(*x)?) } else { None };
        let kp2 = kp.clone();
        let leaf = if let Prop::Remove(x) = pr { Some(self.leaf_of(*x)) } else { None };
        let suite = CipherSuite::new(self.cfg.suite);
        let ext = if let Prop::Gce(v) = pr { self.context_ext(Some(*v)) } else { ExtensionList::new() };
        let g = self.gm(by);
        let m = match pr {
            Prop::Add(_) => g.propose_add(kp.unwrap(), vec![]),
            Prop::Remove(_) => g.propose_remove(leaf.unwrap(), vec![]),
            Prop::ExternalPsk(id) => g.propose_external_psk(Self::psk_id(*id), vec![]),
            Prop::ResumptionPsk(e) => g.propose_resumption_psk(*e, vec![]),
            Prop::Gce(_) => g.propose_group_context_extensions(ext, vec![]),
            Prop::Custom(v) => g.propose_custom(CustomProposal::new(ProposalType::new(CUSTOM_PROP), vec![*v]), vec![]),
            Prop::ReInit => g.propose_reinit(Some(REINIT_GROUP_ID.to_vec()), mls_rs::ProtocolVersion::MLS_10, suite, ExtensionList::new(), vec![]),
        }?;
        Ok((m, kp2))
    }

    pub fn propose_update(&mut self, by: usize) -> Result<MlsMessage, MlsError> {
        self.gm(by).propose_update(vec![])
    }

    /// Update proposal that also replaces the member's signature key (same identity name).
    pub fn propose_update_new_identity(&mut self, by: usize) -> Result<MlsMessage, MlsError> {
        let party = &self.parties[by];
        let cs = party.client_cs(&self.cfg);
        let (sk, pk) = cs.signature_key_generate().map_err(|e| MlsError::CryptoProviderError(mls_rs_core::error::IntoAnyError::into_any_error(e)))?;
        let id = SigningIdentity::new(BasicCredential::new(party.name.as_bytes().to_vec()).into_credential(), pk);
        self.gm(by).propose_update_with_identity(sk, id, vec![])
    }

    pub fn process(&mut self, p: usize, m: &MlsMessage) -> Result<ReceivedMessage, MlsError> {
        let now = self.now();
        self.gm(p).process_incoming_message_with_time(m.clone(), now.unwrap())
    }

    pub fn apply(&mut self, p: usize) -> Result<mls_rs::group::CommitMessageDescription, MlsError> {
        let r = self.gm(p).apply_pending_commit()?;
        if let Some((sk, id)) = self.parties[p].pending_rekey.take() {
            self.set_signer(p, sk, id);
        }
        Ok(r)
    }

    pub fn send(&mut self, p: usize, data: &[u8], aad: &[u8]) -> Result<MlsMessage, MlsError> {
        self.gm(p).encrypt_application_message(data, aad.to_vec())
    }

    /// Joiner `p` consumes a Welcome. Drops stale group-state records of an earlier membership
    /// unless `cfg.keep_stale_store`.
    pub fn join(&mut self, p: usize, welcome: &MlsMessage, tree: Option<ExportedTree<'static>>) -> Result<(), MlsError> {
        let now = self.now();
        let (g, _info) = self.parties[p].client.join_group(tree, welcome, now)?;
        if !self.cfg.keep_stale_store {
            let gid = g.group_id().to_vec();
            stores::peek(p as u32, |s| {
                s.groups.remove(&gid);
            });
        }
        self.parties[p].group = Some(g);
        Ok(())
    }

    /// `p` leaves the member set; its group is retained as a ghost.
    pub fn retire(&mut self, p: usize, saw_removal: bool) {
        if let Some(g) = self.parties[p].group.take() {
            let e = g.current_epoch();
            self.ghosts.push(Ghost { name: self.parties[p].name.clone(), party: p as u32, group: g, saw_removal, removed_at_epoch: e });
        }
    }

    /// Swap in a fresh signer for party p after a rekey commit took effect.
    pub fn set_signer(&mut self, p: usize, sk: SignatureSecretKey, id: SigningIdentity) {
        let (client, _, _) = make_client(&self.cfg, p as u32, &self.parties[p].name.clone(), Some((sk.clone(), id.clone())));
        self.parties[p].client = client;
        self.parties[p].signer = sk;
        self.parties[p].identity = id;
        self.parties[p].rekeys += 1;
    }
}

impl Party {
    pub fn client_cs(&self, cfg: &WorldCfg) -> crate::providers::DynCs {
        DynProvider::new(self.which, self.id)
            .cipher_suite_provider(CipherSuite::new(cfg.suite))
            .expect("MACHINERY: suite")
    }
}

pub fn effect_name(e: &CommitEffect) -> &'static str {
    match e {
        CommitEffect::NewEpoch(_) => "NewEpoch",
        CommitEffect::Removed { .. } => "Removed",
        CommitEffect::ReInit(_) => "ReInit",
    }
}

/// Short name of an MlsError variant (without payload).
pub fn err_name(e: &MlsError) -> String {
    let s = format!("{e:?}");
    s.split(|c: char| !(c.is_alphanumeric() || c == '_')).next().unwrap_or("?").to_string()
}
