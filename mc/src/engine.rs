//! Explorer: bounded-exhaustive DFS over forkable states, sharded over worker processes.
//!
//! * every action sequence of length <= depth from every seed is executed on the real
//!   implementation (no merging, no sampling); the oracle runs inside `Model::step`
//!   on every transition;
//! * work items are (seed, first action) pairs, distributed round-robin over `n` worker
//!   processes (`--shard i/n`); the parent merges the workers' reports;
//! * a violation is matched against /verif/known-findings.json by signature; unknown ones get a
//!   replay file and make the run exit 1.

use std::collections::{BTreeMap, BTreeSet};
use std::fmt::Debug;
use std::sync::Mutex;
use std::time::Instant;

use serde_json::{json, Value};

pub static LAST_PANIC: Mutex<Option<(String, String)>> = Mutex::new(None);
/// Trail of the artefact being replayed (set by `mlsmc <ID> replay`).
pub static REPLAY_TRAIL: Mutex<Vec<String>> = Mutex::new(Vec::new());

pub fn install_panic_hook() {
    let verbose = std::env::var("VERIF_VERBOSE").is_ok();
    std::panic::set_hook(Box::new(move |info| {
        let loc = info.location().map(|l| format!("{}:{}", l.file(), l.line())).unwrap_or_default();
        let msg = if let Some(s) = info.payload().downcast_ref::<&str>() {
            s.to_string()
        } else if let Some(s) = info.payload().downcast_ref::<String>() {
            s.clone()
        } else {
            "<non-string panic>".to_string()
        };
        if verbose || msg.contains("MACHINERY") {
            eprintln!("panic at {loc}: {msg}");
        }
        *LAST_PANIC.lock().unwrap() = Some((loc, msg));
    }));
}

/// (location, message, is_library) of the last panic.
pub fn take_panic() -> (String, String, bool) {
    let (loc, msg) = LAST_PANIC.lock().unwrap().take().unwrap_or_default();
    let lib = !msg.contains("MACHINERY") && (loc.starts_with("/repo/") || loc.contains("/registry/") || loc.contains("/rustc/") || loc.contains("/library/"));
    (loc, msg, lib)
}

pub fn machinery(msg: &str) -> ! {
    eprintln!("MACHINERY ERROR: {msg}");
    std::process::exit(2)
}

#[derive(Clone, Debug)]
pub struct ViolationRec {
    pub property: String,
    pub signature: String,
    pub detail: String,
    pub trail: Vec<String>,
    pub path: Vec<usize>,
}

#[derive(Default, Clone)]
pub struct Report {
    pub transitions: u64,
    pub traces: u64,
    pub evaluations: u64,
    pub max_depth: u64,
    pub shapes: BTreeSet<u64>,
    pub outcomes: BTreeMap<String, u64>,
    pub goals: BTreeMap<String, u64>,
    pub samples: Vec<Value>,
    pub violations: Vec<ViolationRec>,
    pub cap_hit: bool,
    pub extra: BTreeMap<String, u64>,
    pub notes: Vec<String>,
}

impl Report {
    pub fn to_json(&self) -> Value {
        json!({
            "transitions": self.transitions, "traces": self.traces, "evaluations": self.evaluations,
            "max_depth": self.max_depth, "shapes": self.shapes.iter().collect::<Vec<_>>(),
            "outcomes": self.outcomes, "goals": self.goals, "samples": self.samples,
            "violations": self.violations.iter().map(|v| json!({"property": v.property, "signature": v.signature, "detail": v.detail, "trail": v.trail, "path": v.path})).collect::<Vec<_>>(),
            "cap_hit": self.cap_hit, "extra": self.extra, "notes": self.notes,
        })
    }
    pub fn merge_json(&mut self, v: &Value) {
        let u = |k: &str| v[k].as_u64().unwrap_or(0);
        self.transitions += u("transitions");
        self.traces += u("traces");
        self.evaluations += u("evaluations");
        self.max_depth = self.max_depth.max(u("max_depth"));
        for s in v["shapes"].as_array().into_iter().flatten() {
            self.shapes.insert(s.as_u64().unwrap_or(0));
        }
        for (name, map) in [("outcomes", &mut self.outcomes), ("goals", &mut self.goals), ("extra", &mut self.extra)] {
            for (k, n) in v[name].as_object().into_iter().flatten() {
                *map.entry(k.clone()).or_insert(0) += n.as_u64().unwrap_or(0);
            }
        }
        for s in v["samples"].as_array().into_iter().flatten() {
            if self.samples.len() < 8 {
                self.samples.push(s.clone());
            }
        }
        for x in v["violations"].as_array().into_iter().flatten() {
            self.violations.push(ViolationRec {
                property: x["property"].as_str().unwrap_or("").into(),
                signature: x["signature"].as_str().unwrap_or("").into(),
                detail: x["detail"].as_str().unwrap_or("").into(),
                trail: x["trail"].as_array().into_iter().flatten().map(|t| t.as_str().unwrap_or("").to_string()).collect(),
                path: x["path"].as_array().into_iter().flatten().map(|t| t.as_u64().unwrap_or(0) as usize).collect(),
            });
        }
        self.cap_hit |= v["cap_hit"].as_bool().unwrap_or(false);
        for n in v["notes"].as_array().into_iter().flatten() {
            let n = n.as_str().unwrap_or("").to_string();
            if !self.notes.contains(&n) {
                self.notes.push(n);
            }
        }
    }
}

/// Per-run context handed to models and checks.
pub struct Ctx {
    pub property: String,
    pub tier: String,
    pub shard: (usize, usize),
    pub seed: u64,
    pub report: Report,
    pub started: Instant,
    pub wall_cap_s: u64,
    /// current path (seed index, action indices) and trail, maintained by the explorer
    pub path: Vec<usize>,
    pub cur_trail: Vec<String>,
    /// index of the model run (prefix of recorded replay paths)
    pub model_idx: usize,
    sig_seen: BTreeSet<String>,
}

impl Ctx {
    pub fn new(property: &str, tier: &str, shard: (usize, usize), seed: u64) -> Ctx {
        let wall_cap_s = std::env::var("VERIF_WALL_CAP_S").ok().and_then(|s| s.parse().ok()).unwrap_or(if tier == "quick" { 600 } else { 6 * 3600 });
        Ctx { property: property.into(), tier: tier.into(), shard, seed, report: Report::default(), started: Instant::now(), wall_cap_s, path: vec![], cur_trail: vec![], model_idx: 0, sig_seen: BTreeSet::new() }
    }
    pub fn quick(&self) -> bool {
        self.tier == "quick"
    }
    pub fn mine(&self, item: usize) -> bool {
        item % self.shard.1 == self.shard.0
    }
    pub fn outcome(&mut self, k: impl Into<String>) {
        *self.report.outcomes.entry(k.into()).or_insert(0) += 1;
    }
    pub fn goal(&mut self, k: &str) {
        *self.report.goals.entry(k.into()).or_insert(0) += 1;
    }
    pub fn extra(&mut self, k: &str, n: u64) {
        *self.report.extra.entry(k.into()).or_insert(0) += n;
    }
    pub fn eval(&mut self) {
        self.report.evaluations += 1;
    }
    pub fn shape(&mut self, h: u64) {
        self.report.shapes.insert(h);
    }
    pub fn sample(&mut self, v: Value) {
        if self.report.samples.len() < 4 {
            self.report.samples.push(v);
        }
    }
    pub fn note(&mut self, s: impl Into<String>) {
        let s = s.into();
        if !self.report.notes.contains(&s) {
            self.report.notes.push(s);
        }
    }
    pub fn over_cap(&mut self) -> bool {
        if self.started.elapsed().as_secs() > self.wall_cap_s {
            self.report.cap_hit = true;
            true
        } else {
            false
        }
    }
    /// Record a violation (deduplicated by signature within this worker; first occurrence kept).
    pub fn violation(&mut self, signature: impl Into<String>, detail: impl Into<String>) {
        self.violation_for(&self.property.clone(), signature, detail)
    }
    pub fn violation_for(&mut self, property: &str, signature: impl Into<String>, detail: impl Into<String>) {
        let signature = signature.into();
        if property != self.property {
            self.extra(&format!("violations_of_other_property_{property}"), 1);
            return;
        }
        self.extra("violating_evaluations", 1);
        if !self.sig_seen.insert(format!("{property}|{signature}")) {
            return;
        }
        self.report.violations.push(ViolationRec { property: property.into(), signature, detail: detail.into(), trail: self.cur_trail.clone(), path: std::iter::once(self.model_idx).chain(self.path.iter().copied()).collect() });
    }
}

pub enum Step {
    /// continue exploring below this state
    Continue,
    /// do not explore below (state is terminal for this model)
    Stop,
}

pub trait Model {
    type S: Clone;
    type A: Clone + Debug;
    fn seeds(&self, ctx: &mut Ctx) -> Vec<(String, Self::S)>;
    fn actions(&self, s: &Self::S, depth: usize) -> Vec<Self::A>;
    fn step(&self, s: &mut Self::S, a: &Self::A, ctx: &mut Ctx) -> Step;
    fn depth(&self, seed_idx: usize) -> usize;
}

fn dfs<M: Model>(m: &M, s: &M::S, depth: usize, max_depth: usize, ctx: &mut Ctx) {
    if depth >= max_depth || ctx.over_cap() {
        ctx.report.traces += 1;
        return;
    }
    let acts = m.actions(s, depth);
    if acts.is_empty() {
        ctx.report.traces += 1;
        return;
    }
    for (i, a) in acts.iter().enumerate() {
        let mut s2 = s.clone();
        ctx.path.push(i);
        ctx.cur_trail.push(format!("{a:?}"));
        ctx.report.transitions += 1;
        ctx.report.max_depth = ctx.report.max_depth.max(depth as u64 + 1);
        match m.step(&mut s2, a, ctx) {
            Step::Continue => dfs(m, &s2, depth + 1, max_depth, ctx),
            Step::Stop => ctx.report.traces += 1,
        }
        ctx.path.pop();
        ctx.cur_trail.pop();
    }
}

/// Explore the work items owned by this shard. A work item is (seed, first action) when the
/// depth bound is 1 and (seed, first action, second action) otherwise; in the second case the
/// first step is executed by every shard that owns one of its children, but it is counted and
/// judged only by the shard that owns the first-level item (the others restore their report).
pub fn explore<M: Model>(m: &M, ctx: &mut Ctx) {
    let seeds = m.seeds(ctx);
    let mut item = 0usize;
    let mut item2 = 0usize;
    for (si, (name, s)) in seeds.iter().enumerate() {
        let max_depth = m.depth(si);
        let acts = m.actions(s, 0);
        for (i, a) in acts.iter().enumerate() {
            let owner = ctx.mine(item);
            item += 1;
            if max_depth < 2 {
                if !owner {
                    continue;
                }
                let mut s2 = s.clone();
                ctx.path = vec![si, i];
                ctx.cur_trail = vec![format!("seed {name}"), format!("{a:?}")];
                ctx.report.transitions += 1;
                ctx.report.max_depth = ctx.report.max_depth.max(1);
                if ctx.report.samples.len() < 2 && item % 7 == 1 {
                    let t = ctx.cur_trail.clone();
                    ctx.sample(json!({"trail": t}));
                }
                match m.step(&mut s2, a, ctx) {
                    Step::Continue => dfs(m, &s2, 1, max_depth, ctx),
                    Step::Stop => ctx.report.traces += 1,
                }
                continue;
            }
            // two-level sharding
            let saved = if owner { None } else { Some(ctx.report.clone()) };
            let mut s2 = s.clone();
            ctx.path = vec![si, i];
            ctx.cur_trail = vec![format!("seed {name}"), format!("{a:?}")];
            ctx.report.transitions += 1;
            ctx.report.max_depth = ctx.report.max_depth.max(1);
            if owner && ctx.report.samples.len() < 2 && item % 7 == 1 {
                let t = ctx.cur_trail.clone();
                ctx.sample(json!({"trail": t}));
            }
            let st = m.step(&mut s2, a, ctx);
            if let Some(r) = saved {
                ctx.report = r;
            }
            match st {
                Step::Stop => {
                    if owner {
                        ctx.report.traces += 1;
                    }
                }
                Step::Continue => {
                    let acts2 = m.actions(&s2, 1);
                    if acts2.is_empty() && owner {
                        ctx.report.traces += 1;
                    }
                    for (j, b) in acts2.iter().enumerate() {
                        let mine = ctx.mine(item2);
                        item2 += 1;
                        if !mine {
                            continue;
                        }
                        let mut s3 = s2.clone();
                        ctx.path = vec![si, i, j];
                        ctx.cur_trail = vec![format!("seed {name}"), format!("{a:?}"), format!("{b:?}")];
                        ctx.report.transitions += 1;
                        ctx.report.max_depth = ctx.report.max_depth.max(2);
                        match m.step(&mut s3, b, ctx) {
                            Step::Continue => dfs(m, &s3, 2, max_depth, ctx),
                            Step::Stop => ctx.report.traces += 1,
                        }
                    }
                }
            }
        }
    }
}

/// Replay a recorded path (seed index, action indices...) and return the trail.
pub fn replay<M: Model>(m: &M, ctx: &mut Ctx, path: &[usize]) {
    let seeds = m.seeds(ctx);
    if path.is_empty() {
        println!("(violation occurred while a seed was being scripted; seeds rebuilt)");
        return;
    }
    // the recorded trail (action names) takes precedence over indices: it survives changes of
    // the alphabet's enumeration order
    let trail = REPLAY_TRAIL.lock().unwrap().clone();
    let seed_idx = trail
        .first()
        .and_then(|t| seeds.iter().position(|(n, _)| format!("seed {n}") == *t))
        .unwrap_or(path[0]);
    let Some((name, s)) = seeds.get(seed_idx) else { machinery("replay: no such seed") };
    let mut s = s.clone();
    ctx.cur_trail = vec![format!("seed {name}")];
    ctx.path = vec![seed_idx];
    for (d, &i) in path[1..].iter().enumerate() {
        let acts = m.actions(&s, d);
        let by_name = trail.get(d + 1).and_then(|t| acts.iter().position(|a| format!("{a:?}") == *t));
        let i = by_name.unwrap_or(i);
        let Some(a) = acts.get(i) else { machinery("replay path diverges from the model's action enumeration") };
        ctx.cur_trail.push(format!("{a:?}"));
        ctx.path.push(i);
        ctx.report.transitions += 1;
        println!("step {d}: {a:?}");
        if let Step::Stop = m.step(&mut s, a, ctx) {
            break;
        }
    }
}

pub fn fnv(data: &[u8]) -> u64 {
    let mut h: u64 = 0xcbf29ce484222325;
    for b in data {
        h ^= *b as u64;
        h = h.wrapping_mul(0x100000001b3);
    }
    h
}
