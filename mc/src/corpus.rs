//! A corpus of everything mls-rs puts on the wire or into storage, produced by a scripted
//! world (C12 input enumeration, C03 mutation sweep).

use mls_rs::group::proposal::{CustomProposal, ProposalType};
use mls_rs::MlsMessage;

use crate::oracles::{msg_bytes, tree_bytes};
use crate::stores;
use crate::world::*;

#[derive(Clone)]
pub struct Item {
    /// decoder to use: message | tree | external_snapshot | commit_secrets | snapshot | prior_epoch
    pub ty: &'static str,
    /// what it is (public-commit-with-path, welcome, ...)
    pub kind: String,
    pub bytes: Vec<u8>,
}

fn msg(kind: &str, m: &MlsMessage) -> Item {
    Item { ty: "message", kind: kind.to_string(), bytes: msg_bytes(m) }
}

/// Build the corpus for one configuration. Must be called without a store table installed.
pub fn build(cfg: WorldCfg) -> Vec<Item> {
    let tag = if cfg.encrypt_handshake { "private" } else { "public" };
    let mut w = World::new(cfg, 5);
    for p in 0..5 {
        w.set_psk(p, 0, b"psk-zero-value".to_vec());
    }
    let mut items: Vec<Item> = vec![];
    let r = w.run(|w| {
        let items = &mut items;
        w.create(0)?;
        items.push(msg("key-package", &w.key_package(4)?));
        let b = w.commit(0, &CommitSpec { props: vec![Prop::Add(1), Prop::Add(2)], ..Default::default() })?;
        items.push(msg(&format!("{tag}-commit-add-no-path"), &b.out.commit_message));
        for (i, wm) in b.out.welcome_messages.iter().enumerate() {
            items.push(msg(&format!("welcome-{i}"), wm));
        }
        if let Some(gi) = &b.out.external_commit_group_info {
            items.push(msg("group-info-ext-commit", gi));
        }
        w.apply(0)?;
        let tree = if w.cfg.tree_ext { None } else { Some(w.g(0).export_tree().into_owned()) };
        for p in [1, 2] {
            let wm = b.out.welcome_messages.iter().find(|wm| w.parties[p].client.clone().join_group(tree.clone(), wm, w.now()).is_ok()).cloned();
            let Some(wm) = wm else { return Err(mls_rs::error::MlsError::WelcomeKeyPackageNotFound) };
            w.join(p, &wm, tree.clone())?;
        }
        items.push(Item { ty: "tree", kind: "exported-tree-3".into(), bytes: tree_bytes(w.g(0)) });
        items.push(msg("group-info-plain", &w.g(1).group_info_message(false)?));
        items.push(msg("group-info-with-tree", &w.g(1).group_info_message(true)?));
        items.push(msg("application", &w.send(1, b"application payload", b"app aad")?));
        // party 1 receives the second of two messages only: a skipped message key stays in its
        // ratchet and therefore in every snapshot / epoch record it stores from here on
        let _held_back = w.send(2, b"first, never delivered", b"")?;
        let second = w.send(2, b"second", b"")?;
        w.process(1, &second)?;
        // by-reference proposals of every type, delivered to everybody
        let mut props: Vec<(String, MlsMessage)> = vec![];
        props.push(("add".into(), w.propose(1, &Prop::Add(3))?.0));
        props.push(("remove".into(), w.propose(0, &Prop::Remove(2))?.0));
        props.push(("update".into(), w.propose_update(2)?));
        props.push(("psk".into(), w.propose(0, &Prop::ExternalPsk(0))?.0));
        props.push(("gce".into(), w.propose(1, &Prop::Gce(3))?.0));
        props.push(("custom".into(), w.gm(0).propose_custom(CustomProposal::new(ProposalType::new(CUSTOM_PROP), vec![1, 2, 3]), vec![9])?));
        for (k, m) in &props {
            items.push(msg(&format!("{tag}-proposal-{k}"), m));
            for p in w.members() {
                let _ = w.process(p, m);
            }
        }
        let cached = w.g(1).get_cached_proposals();
        if let Some(c) = cached.first() {
            if let Ok(bytes) = c.to_bytes() {
                items.push(Item { ty: "cached_proposal", kind: "cached-proposal".into(), bytes });
            }
        }
        // snapshot with cached proposals and a pending commit
        let (out, secrets) = w.gm(1).commit_detached(vec![])?;
        items.push(msg(&format!("{tag}-commit-by-ref-with-path"), &out.commit_message));
        items.push(Item { ty: "commit_secrets", kind: "commit-secrets".into(), bytes: secrets.to_bytes()? });
        let b = w.commit(1, &CommitSpec::default())?;
        w.gm(1).write_to_storage()?;
        let gid = w.group_id.clone();
        if let Some(state) = stores::peek(1, |s| s.groups.get(&gid).map(|g| g.state.clone())) {
            items.push(Item { ty: "snapshot", kind: "stored-snapshot-with-pending-commit".into(), bytes: state });
        }
        for p in [0, 2] {
            w.process(p, &b.out.commit_message)?;
        }
        w.apply(1)?;
        if b.out.commit_message.wire_format() == mls_rs::WireFormat::PublicMessage {
            // new members (3) join; removed (2) leaves
        }
        for wm in &b.out.welcome_messages {
            items.push(msg("welcome-after-by-ref-add", wm));
            let tree = if w.cfg.tree_ext { None } else { Some(w.g(1).export_tree().into_owned()) };
            let _ = w.join(3, wm, tree);
        }
        w.retire(2, true);
        w.gm(1).write_to_storage()?;
        if let Some(ep) = stores::peek(1, |s| s.groups.get(&gid).and_then(|g| g.epochs.values().next().cloned())) {
            items.push(Item { ty: "prior_epoch", kind: "stored-epoch-record".into(), bytes: ep });
        }
        items.push(Item { ty: "tree", kind: "exported-tree-with-blank".into(), bytes: tree_bytes(w.g(0)) });
        // commit with path only, rekey commit, external commit
        let b = w.commit(0, &CommitSpec::default())?;
        items.push(msg(&format!("{tag}-commit-empty-with-path"), &b.out.commit_message));
        for p in w.members() {
            if p != 0 {
                w.process(p, &b.out.commit_message)?;
            }
        }
        w.apply(0)?;
        let gi = w.g(0).group_info_message_allowing_ext_commit(true)?;
        let (g, m) = w.parties[4].client.external_commit_builder()?.commit_time(time(w.clock)).build(gi)?;
        items.push(msg("external-commit", &m));
        for p in w.members() {
            w.process(p, &m)?;
        }
        w.parties[4].group = Some(g);
        // observer snapshot
        let ext = mls_rs::external_client::builder::ExternalClientBuilder::new()
            .crypto_provider(crate::providers::DynProvider::new(crate::providers::Which::Rust, 950))
            .identity_provider(HIdentity { party: 950 })
            .extension_type(mls_rs_core::extension::ExtensionType::new(CUSTOM_EXT))
            .custom_proposal_types(Some(ProposalType::new(CUSTOM_PROP)))
            .build();
        if let Ok(o) = ext.observe_group(w.g(0).group_info_message(false)?, Some(w.g(0).export_tree()), w.now()) {
            if let Ok(bytes) = o.snapshot().to_bytes() {
                items.push(Item { ty: "external_snapshot", kind: "external-snapshot".into(), bytes });
            }
        }
        Ok::<(), mls_rs::error::MlsError>(())
    });
    match r {
        Ok(Ok(())) => {}
        Ok(Err(e)) => crate::engine::machinery(&format!("corpus script failed: {e:?}")),
        Err(_) => crate::engine::machinery("corpus script panicked"),
    }
    items
}
