//! Harness-owned storage: group state, key packages, PSKs.
//!
//! A handle (`GsStore`, `KpStore`, `PskStore`) carries only a party id. The data lives in a
//! process-global table which the engine swaps in for the duration of a transition
//! (`install`/`uninstall`), so that forking a world is: clone the groups + clone the table.
//! The group-state store is the *reference store model* (a map epoch id -> record with the
//! documented retention rule); the shipped stores are exercised by the tee in C06/C19.
//!
//! Fault injection (C15): every trait call is numbered; `fail_calls` lists call numbers that
//! return an error instead of being executed.

use std::collections::{BTreeMap, BTreeSet};
use std::sync::Mutex;

use mls_rs_core::group::{EpochRecord, GroupState, GroupStateStorage};
use mls_rs_core::key_package::{KeyPackageData, KeyPackageStorage};
use mls_rs_core::psk::{ExternalPskId, PreSharedKey, PreSharedKeyStorage};
use zeroize::Zeroizing;

use crate::providers::HErr;

#[derive(Clone, Debug, Default, PartialEq, Eq)]
pub struct GroupData {
    pub state: Vec<u8>,
    pub epochs: BTreeMap<u64, Vec<u8>>,
}

#[derive(Clone, Debug, PartialEq, Eq)]
pub struct KpData {
    pub key_package_bytes: Vec<u8>,
    pub init_key: Vec<u8>,
    pub leaf_node_key: Vec<u8>,
    pub expiration: u64,
}

#[derive(Clone, Debug, PartialEq, Eq)]
pub struct CallRec {
    pub n: usize,
    pub store: &'static str,
    pub op: &'static str,
    pub failed: bool,
}

#[derive(Clone, Debug, Default, PartialEq, Eq)]
pub struct PartyStores {
    pub groups: BTreeMap<Vec<u8>, GroupData>,
    pub retention: usize,
    pub kps: BTreeMap<Vec<u8>, KpData>,
    pub psks: BTreeMap<Vec<u8>, Vec<u8>>,
    /// calls made so far in the current counting window
    pub calls: Vec<CallRec>,
    /// call numbers (within the window) that must fail
    pub fail_calls: BTreeSet<usize>,
}

impl PartyStores {
    pub fn new(retention: usize) -> Self {
        Self { retention, ..Default::default() }
    }
    /// Contents only (no call log / fault plan): what "the stores" are for equality.
    pub fn contents(&self) -> (BTreeMap<Vec<u8>, GroupData>, BTreeMap<Vec<u8>, KpData>, BTreeMap<Vec<u8>, Vec<u8>>) {
        (self.groups.clone(), self.kps.clone(), self.psks.clone())
    }
    pub fn reset_calls(&mut self) {
        self.calls.clear();
        self.fail_calls.clear();
    }
}

pub type StoreTable = BTreeMap<u32, PartyStores>;

static TABLE: Mutex<Option<StoreTable>> = Mutex::new(None);

pub fn install(t: StoreTable) {
    let mut g = TABLE.lock().unwrap();
    assert!(g.is_none(), "MACHINERY: store table already installed");
    *g = Some(t);
}

pub fn uninstall() -> StoreTable {
    TABLE.lock().unwrap().take().expect("MACHINERY: no store table installed")
}

pub fn is_installed() -> bool {
    TABLE.lock().unwrap().is_some()
}

fn with<R>(party: u32, f: impl FnOnce(&mut PartyStores) -> R) -> R {
    let mut g = TABLE.lock().unwrap();
    let t = g.as_mut().unwrap_or_else(|| {
        eprintln!("MACHINERY: storage handle used with no store table installed");
        std::process::exit(3)
    });
    f(t.entry(party).or_insert_with(|| PartyStores::new(3)))
}

/// Direct access for the harness (oracles, setup).
pub fn peek<R>(party: u32, f: impl FnOnce(&mut PartyStores) -> R) -> R {
    with(party, f)
}

fn call(p: &mut PartyStores, store: &'static str, op: &'static str) -> Result<(), HErr> {
    let n = p.calls.len();
    let failed = p.fail_calls.contains(&n);
    p.calls.push(CallRec { n, store, op, failed });
    if failed {
        Err(HErr(format!("injected fault: {store}.{op} call #{n}")))
    } else {
        Ok(())
    }
}

#[derive(Clone, Debug)]
pub struct GsStore(pub u32);
#[derive(Clone, Debug)]
pub struct KpStore(pub u32);
#[derive(Clone, Debug)]
pub struct PskStore(pub u32);

// ------------------------------------------------------------------------------------------
// Tee mode (C06, C19): the shipped stores behind the same handle
// ------------------------------------------------------------------------------------------

/// The shipped group-state stores of one party. Not forkable (they share state through `Arc`):
/// checks that use the tee explore by replaying prefixes instead of cloning worlds.
#[derive(Clone)]
pub struct Real {
    pub mem: mls_rs::storage_provider::in_memory::InMemoryGroupStateStorage,
    pub sql: mls_rs_provider_sqlite::storage::SqLiteGroupStateStorage,
    /// which shipped store answers mls-rs: 0 in-memory, 1 SQLite
    pub primary: u8,
}

static REAL: Mutex<BTreeMap<u32, Real>> = Mutex::new(BTreeMap::new());
static TEE_LOG: Mutex<Vec<String>> = Mutex::new(Vec::new());

pub fn tee_install(party: u32, retention: usize, primary: u8) {
    use mls_rs_provider_sqlite::connection_strategy::MemoryStrategy;
    use mls_rs_provider_sqlite::SqLiteDataStorageEngine;
    let mem = mls_rs::storage_provider::in_memory::InMemoryGroupStateStorage::new().with_max_epoch_retention(retention).expect("MACHINERY: retention");
    let sql = SqLiteDataStorageEngine::new(MemoryStrategy).expect("MACHINERY: sqlite").group_state_storage().expect("MACHINERY: sqlite").with_max_epoch_retention(retention as u64);
    REAL.lock().unwrap().insert(party, Real { mem, sql, primary });
}

pub fn tee_clear() {
    REAL.lock().unwrap().clear();
    TEE_LOG.lock().unwrap().clear();
}

/// Disagreements between the in-memory store, the SQLite store and the model seen so far.
pub fn tee_take_log() -> Vec<String> {
    std::mem::take(&mut *TEE_LOG.lock().unwrap())
}

fn real_for(party: u32) -> Option<Real> {
    REAL.lock().unwrap().get(&party).cloned()
}

fn tee_read(party: u32, what: String, model: Option<Vec<u8>>, read: impl Fn(&Real) -> (Result<Option<Vec<u8>>, String>, Result<Option<Vec<u8>>, String>)) -> Result<Option<Zeroizing<Vec<u8>>>, HErr> {
    let Some(real) = real_for(party) else { return Ok(model.map(Zeroizing::new)) };
    let (a, b) = read(&real);
    let short = |r: &Result<Option<Vec<u8>>, String>| match r {
        Ok(Some(v)) => format!("Some({} bytes, fnv {:08x})", v.len(), crate::engine::fnv(v) as u32),
        Ok(None) => "None".to_string(),
        Err(e) => format!("Err({e})"),
    };
    if a != b || a.as_ref().ok() != Some(&model) {
        TEE_LOG.lock().unwrap().push(format!("{what}: in-memory {} / sqlite {} / model {}", short(&a), short(&b), short(&Ok(model.clone()))));
    }
    let primary = if real.primary == 0 { a } else { b };
    primary.map(|o| o.map(Zeroizing::new)).map_err(HErr)
}

impl GroupStateStorage for GsStore {
    type Error = HErr;

    fn state(&self, group_id: &[u8]) -> Result<Option<Zeroizing<Vec<u8>>>, HErr> {
        let model = with(self.0, |p| {
            call(p, "group_state", "state")?;
            Ok::<_, HErr>(p.groups.get(group_id).map(|g| g.state.clone()))
        })?;
        tee_read(self.0, "state()".into(), model, |r| {
            (
                r.mem.state(group_id).map(|o| o.map(|z| z.to_vec())).map_err(|e| format!("{e:?}")),
                r.sql.state(group_id).map(|o| o.map(|z| z.to_vec())).map_err(|e| format!("{e:?}")),
            )
        })
    }

    fn epoch(&self, group_id: &[u8], epoch_id: u64) -> Result<Option<Zeroizing<Vec<u8>>>, HErr> {
        let model = with(self.0, |p| {
            call(p, "group_state", "epoch")?;
            Ok::<_, HErr>(p.groups.get(group_id).and_then(|g| g.epochs.get(&epoch_id)).cloned())
        })?;
        tee_read(self.0, format!("epoch({epoch_id})"), model, |r| {
            (
                r.mem.epoch(group_id, epoch_id).map(|o| o.map(|z| z.to_vec())).map_err(|e| format!("{e:?}")),
                r.sql.epoch(group_id, epoch_id).map(|o| o.map(|z| z.to_vec())).map_err(|e| format!("{e:?}")),
            )
        })
    }

    fn write(
        &mut self,
        state: GroupState,
        epoch_inserts: Vec<EpochRecord>,
        epoch_updates: Vec<EpochRecord>,
    ) -> Result<(), HErr> {
        if let Some(mut real) = real_for(self.0) {
            // the fault plan is consulted by the model write below; mirror only un-faulted writes
            let will_fail = with(self.0, |p| p.fail_calls.contains(&p.calls.len()));
            if !will_fail {
                let a = real.mem.write(state.clone(), epoch_inserts.clone(), epoch_updates.clone()).map_err(|e| format!("{e:?}"));
                let b = real.sql.write(state.clone(), epoch_inserts.clone(), epoch_updates.clone()).map_err(|e| format!("{e:?}"));
                if a.is_err() || b.is_err() {
                    TEE_LOG.lock().unwrap().push(format!("write(inserts {:?}, updates {:?}): in-memory {a:?} / sqlite {b:?}", epoch_inserts.iter().map(|e| e.id).collect::<Vec<_>>(), epoch_updates.iter().map(|e| e.id).collect::<Vec<_>>()));
                }
                let primary = if real.primary == 0 { a } else { b };
                if let Err(e) = primary {
                    return Err(HErr(e));
                }
            }
        }
        with(self.0, |p| {
            call(p, "group_state", "write")?;
            let retention = p.retention;
            let g = p.groups.entry(state.id.clone()).or_default();
            g.state = state.data.to_vec();
            for e in epoch_inserts {
                g.epochs.insert(e.id, e.data.to_vec());
            }
            for e in epoch_updates {
                if let Some(x) = g.epochs.get_mut(&e.id) {
                    *x = e.data.to_vec();
                }
            }
            while g.epochs.len() > retention {
                let k = *g.epochs.keys().next().unwrap();
                g.epochs.remove(&k);
            }
            Ok(())
        })
    }

    fn max_epoch_id(&self, group_id: &[u8]) -> Result<Option<u64>, HErr> {
        let model = with(self.0, |p| {
            call(p, "group_state", "max_epoch_id")?;
            Ok::<_, HErr>(p.groups.get(group_id).and_then(|g| g.epochs.keys().next_back().copied()))
        })?;
        let Some(real) = real_for(self.0) else { return Ok(model) };
        let a = real.mem.max_epoch_id(group_id).map_err(|e| format!("{e:?}"));
        let b = real.sql.max_epoch_id(group_id).map_err(|e| format!("{e:?}"));
        if a != b || a.as_ref().ok() != Some(&model) {
            TEE_LOG.lock().unwrap().push(format!("max_epoch_id(): in-memory {a:?} / sqlite {b:?} / model {model:?}"));
        }
        (if real.primary == 0 { a } else { b }).map_err(HErr)
    }
}

impl KeyPackageStorage for KpStore {
    type Error = HErr;

    fn delete(&mut self, id: &[u8]) -> Result<(), HErr> {
        with(self.0, |p| {
            call(p, "key_package", "delete")?;
            p.kps.remove(id);
            Ok(())
        })
    }

    fn insert(&mut self, id: Vec<u8>, pkg: KeyPackageData) -> Result<(), HErr> {
        with(self.0, |p| {
            call(p, "key_package", "insert")?;
            p.kps.insert(
                id,
                KpData {
                    key_package_bytes: pkg.key_package_bytes.clone(),
                    init_key: pkg.init_key.to_vec(),
                    leaf_node_key: pkg.leaf_node_key.to_vec(),
                    expiration: pkg.expiration,
                },
            );
            Ok(())
        })
    }

    fn get(&self, id: &[u8]) -> Result<Option<KeyPackageData>, HErr> {
        with(self.0, |p| {
            call(p, "key_package", "get")?;
            Ok(p.kps.get(id).map(|k| {
                KeyPackageData::new(
                    k.key_package_bytes.clone(),
                    k.init_key.clone().into(),
                    k.leaf_node_key.clone().into(),
                    k.expiration,
                )
            }))
        })
    }
}

impl PreSharedKeyStorage for PskStore {
    type Error = HErr;

    fn get(&self, id: &ExternalPskId) -> Result<Option<PreSharedKey>, HErr> {
        with(self.0, |p| {
            call(p, "psk", "get")?;
            Ok(p.psks.get(id.as_ref()).map(|v| PreSharedKey::new(v.clone())))
        })
    }
}

/// Run `f` on a copy of the installed table and restore the original afterwards
/// (for on-the-side probes inside a transition).
pub fn with_fork<R>(f: impl FnOnce() -> R) -> R {
    let saved = uninstall();
    install(saved.clone());
    let r = std::panic::catch_unwind(std::panic::AssertUnwindSafe(f));
    let _ = uninstall();
    install(saved);
    match r {
        Ok(r) => r,
        Err(e) => std::panic::resume_unwind(e),
    }
}
