//! Harness-owned storage: group state, key packages, PSKs.
//!
//! A handle (`GsStore`, `KpStore`, `PskStore`) carries only a party id. The data lives in a
//! process-global table which the engine swaps in for the duration of a transition
//! (`install`/`uninstall`), so that forking a world is: clone the groups + clone the table.
//! The group-state store is the *reference store model* (a map epoch id -> record with the
//! documented retention rule); the shipped stores are exercised by the tee in C06/C19.
//!
//! Fault injection (C15): every trait call is numbered; `fail_calls` lists call numbers that
//! return an error instead of being executed.

use std::collections::{BTreeMap, BTreeSet};
use std::sync::Mutex;

use mls_rs_core::group::{EpochRecord, GroupState, GroupStateStorage};
use mls_rs_core::key_package::{KeyPackageData, KeyPackageStorage};
use mls_rs_core::psk::{ExternalPskId, PreSharedKey, PreSharedKeyStorage};
use zeroize::Zeroizing;

use crate::providers::HErr;

#[derive(Clone, Debug, Default, PartialEq, Eq)]
pub struct GroupData {
    pub state: Vec<u8>,
    pub epochs: BTreeMap<u64, Vec<u8>>,
}

#[derive(Clone, Debug, PartialEq, Eq)]
pub struct KpData {
    pub key_package_bytes: Vec<u8>,
    pub init_key: Vec<u8>,
    pub leaf_node_key: Vec<u8>,
    pub expiration: u64,
}

#[derive(Clone, Debug, PartialEq, Eq)]
pub struct CallRec {
    pub n: usize,
    pub store: &'static str,
    pub op: &'static str,
    pub failed: bool,
}

#[derive(Clone, Debug, Default, PartialEq, Eq)]
pub struct PartyStores {
    pub groups: BTreeMap<Vec<u8>, GroupData>,
    pub retention: usize,
    pub kps: BTreeMap<Vec<u8>, KpData>,
    pub psks: BTreeMap<Vec<u8>, Vec<u8>>,
    /// calls made so far in the current counting window
    pub calls: Vec<CallRec>,
    /// call numbers (within the window) that must fail
    pub fail_calls: BTreeSet<usize>,
}

impl PartyStores {
    pub fn new(retention: usize) -> Self {
        Self { retention, ..Default::default() }
    }
    /// Contents only (no call log / fault plan): what "the stores" are for equality.
    pub fn contents(&self) -> (BTreeMap<Vec<u8>, GroupData>, BTreeMap<Vec<u8>, KpData>, BTreeMap<Vec<u8>, Vec<u8>>) {
        (self.groups.clone(), self.kps.clone(), self.psks.clone())
    }
    pub fn reset_calls(&mut self) {
        self.calls.clear();
        self.fail_calls.clear();
    }
}

pub type StoreTable = BTreeMap<u32, PartyStores>;

static TABLE: Mutex<Option<StoreTable>> = Mutex::new(None);

pub fn install(t: StoreTable) {
    let mut g = TABLE.lock().unwrap();
    assert!(g.is_none(), "MACHINERY: store table already installed");
    *g = Some(t);
}

pub fn uninstall() -> StoreTable {
    TABLE.lock().unwrap().take().expect("MACHINERY: no store table installed")
}

pub fn is_installed() -> bool {
    TABLE.lock().unwrap().is_some()
}

fn with<R>(party: u32, f: impl FnOnce(&mut PartyStores) -> R) -> R {
    let mut g = TABLE.lock().unwrap();
    let t = g.as_mut().unwrap_or_else(|| {
        eprintln!("MACHINERY: storage handle used with no store table installed");
        std::process::exit(3)
    });
    f(t.entry(party).or_insert_with(|| PartyStores::new(3)))
}

/// Direct access for the harness (oracles, setup).
pub fn peek<R>(party: u32, f: impl FnOnce(&mut PartyStores) -> R) -> R {
    with(party, f)
}

fn call(p: &mut PartyStores, store: &'static str, op: &'static str) -> Result<(), HErr> {
    let n = p.calls.len();
    let failed = p.fail_calls.contains(&n);
    p.calls.push(CallRec { n, store, op, failed });
    if failed {
        Err(HErr(format!("injected fault: {store}.{op} call #{n}")))
    } else {
        Ok(())
    }
}

#[derive(Clone, Debug)]
pub struct GsStore(pub u32);
#[derive(Clone, Debug)]
pub struct KpStore(pub u32);
#[derive(Clone, Debug)]
pub struct PskStore(pub u32);

impl GroupStateStorage for GsStore {
    type Error = HErr;

    fn state(&self, group_id: &[u8]) -> Result<Option<Zeroizing<Vec<u8>>>, HErr> {
        with(self.0, |p| {
            call(p, "group_state", "state")?;
            Ok(p.groups.get(group_id).map(|g| Zeroizing::new(g.state.clone())))
        })
    }

    fn epoch(&self, group_id: &[u8], epoch_id: u64) -> Result<Option<Zeroizing<Vec<u8>>>, HErr> {
        with(self.0, |p| {
            call(p, "group_state", "epoch")?;
            Ok(p.groups
                .get(group_id)
                .and_then(|g| g.epochs.get(&epoch_id))
                .map(|e| Zeroizing::new(e.clone())))
        })
    }

    fn write(
        &mut self,
        state: GroupState,
        epoch_inserts: Vec<EpochRecord>,
        epoch_updates: Vec<EpochRecord>,
    ) -> Result<(), HErr> {
        with(self.0, |p| {
            call(p, "group_state", "write")?;
            let retention = p.retention;
            let g = p.groups.entry(state.id.clone()).or_default();
            g.state = state.data.to_vec();
            for e in epoch_inserts {
                g.epochs.insert(e.id, e.data.to_vec());
            }
            for e in epoch_updates {
                if let Some(x) = g.epochs.get_mut(&e.id) {
                    *x = e.data.to_vec();
                }
            }
            while g.epochs.len() > retention {
                let k = *g.epochs.keys().next().unwrap();
                g.epochs.remove(&k);
            }
            Ok(())
        })
    }

    fn max_epoch_id(&self, group_id: &[u8]) -> Result<Option<u64>, HErr> {
        with(self.0, |p| {
            call(p, "group_state", "max_epoch_id")?;
            Ok(p.groups.get(group_id).and_then(|g| g.epochs.keys().next_back().copied()))
        })
    }
}

impl KeyPackageStorage for KpStore {
    type Error = HErr;

    fn delete(&mut self, id: &[u8]) -> Result<(), HErr> {
        with(self.0, |p| {
            call(p, "key_package", "delete")?;
            p.kps.remove(id);
            Ok(())
        })
    }

    fn insert(&mut self, id: Vec<u8>, pkg: KeyPackageData) -> Result<(), HErr> {
        with(self.0, |p| {
            call(p, "key_package", "insert")?;
            p.kps.insert(
                id,
                KpData {
                    key_package_bytes: pkg.key_package_bytes.clone(),
                    init_key: pkg.init_key.to_vec(),
                    leaf_node_key: pkg.leaf_node_key.to_vec(),
                    expiration: pkg.expiration,
                },
            );
            Ok(())
        })
    }

    fn get(&self, id: &[u8]) -> Result<Option<KeyPackageData>, HErr> {
        with(self.0, |p| {
            call(p, "key_package", "get")?;
            Ok(p.kps.get(id).map(|k| {
                KeyPackageData::new(
                    k.key_package_bytes.clone(),
                    k.init_key.clone().into(),
                    k.leaf_node_key.clone().into(),
                    k.expiration,
                )
            }))
        })
    }
}

impl PreSharedKeyStorage for PskStore {
    type Error = HErr;

    fn get(&self, id: &ExternalPskId) -> Result<Option<PreSharedKey>, HErr> {
        with(self.0, |p| {
            call(p, "psk", "get")?;
            Ok(p.psks.get(id.as_ref()).map(|v| PreSharedKey::new(v.clone())))
        })
    }
}

/// Run `f` on a copy of the installed table and restore the original afterwards
/// (for on-the-side probes inside a transition).
pub fn with_fork<R>(f: impl FnOnce() -> R) -> R {
    let saved = uninstall();
    install(saved.clone());
    let r = std::panic::catch_unwind(std::panic::AssertUnwindSafe(f));
    let _ = uninstall();
    install(saved);
    match r {
        Ok(r) => r,
        Err(e) => std::panic::resume_unwind(e),
    }
}
