//! Oracles shared by the history checks (C01, C02, C07, C08, C09).

use mls_rs::external_client::builder::ExternalClientBuilder;
use mls_rs::group::ReceivedMessage;
use mls_rs::{CipherSuite, CipherSuiteProvider, CryptoProvider, MlsMessage};
use mls_rs_codec::MlsEncode;
use mls_rs_core::extension::ExtensionType;
use mls_rs::group::proposal::ProposalType;

use crate::engine::Ctx;
use crate::providers::{DynProvider, Rec, Which};
use crate::reference::treebytes::Tree;
use crate::reference::treemath as tm;
use crate::world::*;

pub const EXPORTS: [(&[u8], &[u8], usize); 2] = [(b"verif-a", b"", 32), (b"verif-b", b"some context", 17)];

pub fn hex(b: &[u8]) -> String {
    b.iter().map(|x| format!("{x:02x}")).collect()
}

pub fn tree_bytes(g: &G) -> Vec<u8> {
    g.export_tree().to_bytes().expect("MACHINERY: export_tree encode")
}

pub fn ledger_entry(w: &World, p: usize) -> LedgerEntry {
    let g = w.g(p);
    let context = g.context().mls_encode_to_vec().expect("MACHINERY: context encode");
    let roster = g
        .roster()
        .members()
        .into_iter()
        .map(|m| {
            (
                m.index,
                m.signing_identity.credential.as_basic().map(|b| b.identifier.clone()).unwrap_or_default(),
                m.signing_identity.signature_key.to_vec(),
            )
        })
        .collect();
    LedgerEntry {
        context,
        roster,
        tree: tree_bytes(g),
        authenticator: g.epoch_authenticator().map(|s| s.as_bytes().to_vec()).unwrap_or_default(),
        exports: EXPORTS
            .iter()
            .map(|(l, c, n)| g.export_secret(l, c, *n).map(|s| s.as_bytes().to_vec()).unwrap_or_default())
            .collect(),
        first_by: w.parties[p].name.clone(),
    }
}

/// C01 ledger: the first member to reach (group, epoch) deposits; later ones must agree.
pub fn ledger_observe(w: &mut World, p: usize, how: &str, ctx: &mut Ctx) {
    let e = ledger_entry(w, p);
    let key = (w.g(p).group_id().to_vec(), w.g(p).current_epoch());
    ctx.eval();
    match w.ledger.get(&key) {
        None => {
            w.ledger.insert(key, e);
        }
        Some(first) => {
            let mut diffs = vec![];
            if first.context != e.context {
                diffs.push("group_context");
            }
            if first.roster != e.roster {
                diffs.push("roster");
            }
            if first.tree != e.tree {
                diffs.push("exported_tree");
            }
            if first.authenticator != e.authenticator {
                diffs.push("epoch_authenticator");
            }
            if first.exports != e.exports {
                diffs.push("exported_secret");
            }
            if !diffs.is_empty() {
                ctx.violation_for(
                    "C01",
                    format!("ledger-mismatch|{how}|{}", diffs.join("+")),
                    format!(
                        "{} reached epoch {} via {how} with different {} than {} did",
                        w.parties[p].name,
                        key.1,
                        diffs.join(", "),
                        first.first_by
                    ),
                );
            }
        }
    }
}

/// C01: each member encrypts once on a fork; every other member at that epoch decrypts on a fork.
pub fn pairwise_decrypt(w: &World, ctx: &mut Ctx) {
    let members = w.members();
    for &s in &members {
        let mut gs = w.g(s).clone();
        let pt = format!("msg from {}", w.parties[s].name).into_bytes();
        let aad = vec![0xAA, s as u8];
        let has_cached = !gs.get_cached_proposals().is_empty();
        ctx.eval();
        let m = match gs.encrypt_application_message(&pt, aad.clone()) {
            Ok(m) => m,
            Err(e) => {
                if has_cached && err_name(&e) == "CommitRequired" {
                    ctx.outcome("encrypt:CommitRequired(cached proposals)");
                } else {
                    ctx.violation_for("C01", format!("encrypt-failed|{}", err_name(&e)), format!("{} cannot encrypt in its epoch: {e:?}", w.parties[s].name));
                }
                continue;
            }
        };
        for &r in &members {
            if r == s || w.g(r).current_epoch() != w.g(s).current_epoch() {
                continue;
            }
            let mut gr = w.g(r).clone();
            ctx.eval();
            match gr.process_incoming_message_with_time(m.clone(), time(w.clock)) {
                Ok(ReceivedMessage::ApplicationMessage(d)) => {
                    if d.data() != pt || d.authenticated_data != aad || d.sender_index != w.leaf_of(s) {
                        ctx.violation_for("C01", "decrypt-wrong-content", format!("{} decrypted a message of {} to different content/sender", w.parties[r].name, w.parties[s].name));
                    } else {
                        ctx.outcome("pair-decrypt:ok");
                    }
                }
                Ok(_) => ctx.violation_for("C01", "decrypt-wrong-kind", "application message reported as another kind"),
                Err(e) => ctx.violation_for(
                    "C01",
                    format!("decrypt-failed|{}", err_name(&e)),
                    format!("{} cannot decrypt what {} encrypted in epoch {}: {e:?}", w.parties[r].name, w.parties[s].name, w.g(s).current_epoch()),
                ),
            }
        }
    }
}

/// C02 O1: every HPKE seal made while building a commit goes to an entitled key.
/// `new_tree` = committer's tree after the commit; `added_init_keys` = init keys of the key
/// packages added; `new_leaves` = leaf indices added by this commit.
pub fn recipients_check(
    recs: &[Rec],
    committer_leaf: u32,
    new_tree: &Tree,
    old_tree: &Tree,
    added_init_keys: &[Vec<u8>],
    new_leaves: &[u32],
    removed_leaf_keys: &[Vec<u8>],
    ctx: &mut Ctx,
) {
    let n = new_tree.n_leaves();
    let mut allowed: Vec<Vec<u8>> = vec![];
    for c in tm::copath(2 * committer_leaf, n) {
        for x in new_tree.resolution(c) {
            if x % 2 == 0 && new_leaves.contains(&(x / 2)) {
                continue;
            }
            if let Some(nd) = new_tree.node(x) {
                allowed.push(nd.key().to_vec());
            }
        }
    }
    let mut expected_path = allowed.len();
    // exact expected multiset: filtered direct path only
    let mut exact = 0usize;
    for (_, c) in new_tree.filtered_direct_path(committer_leaf) {
        exact += new_tree.resolution(c).iter().filter(|x| !(*x % 2 == 0 && new_leaves.contains(&(*x / 2)))).count();
    }
    expected_path = expected_path.min(exact);
    let mut n_path = 0usize;
    let mut n_welcome = 0usize;
    for r in recs {
        let Rec::HpkeSeal { pk, .. } = r else { continue };
        ctx.eval();
        if allowed.contains(pk) {
            n_path += 1;
        } else if added_init_keys.contains(pk) {
            n_welcome += 1;
        } else {
            let what = if removed_leaf_keys.contains(pk) {
                "removed-leaf-key"
            } else if new_leaves.iter().any(|l| new_tree.leaf(*l).map(|lf| &lf.encryption_key == pk).unwrap_or(false)) {
                "leaf-added-in-this-commit"
            } else if old_tree.nodes.iter().flatten().any(|nd| nd.key() == &pk[..]) {
                "key-of-previous-tree-not-in-new-copath-resolution"
            } else {
                "unknown-key"
            };
            ctx.violation_for("C02", format!("hpke-recipient|{what}"), format!("commit by leaf {committer_leaf} encrypted a secret to a key that is not entitled: {what} ({})", hex(&pk[..8.min(pk.len())])));
        }
    }
    if n_path > 0 {
        ctx.goal("commit-with-path-secrets");
        if n_path == expected_path {
            ctx.outcome("recipients:exact");
        } else {
            ctx.outcome("recipients:subset");
        }
    }
    if n_welcome > 0 {
        ctx.outcome("recipients:welcome");
        if n_welcome != added_init_keys.len() {
            ctx.outcome("recipients:welcome-count-differs");
        }
    }
}

/// Public keys of the nodes whose private keys a (former) member holds, per its own last tree.
pub fn known_pks(g: &G) -> Vec<Vec<u8>> {
    let (leaf, keys) = g.verif_private_keys();
    let Ok(t) = Tree::parse(&tree_bytes(g)) else { return vec![] };
    let mut nodes = vec![2 * leaf];
    nodes.extend(tm::direct_path(2 * leaf, t.n_leaves()));
    nodes
        .iter()
        .zip(keys.iter())
        .filter(|(_, k)| k.is_some())
        .filter_map(|(x, _)| t.node(*x).map(|n| n.key().to_vec()))
        .collect()
}

/// C02: no secret may be HPKE-encrypted to a key whose private half a removed member holds.
pub fn no_seal_to_removed(recs: &[Rec], ghosts: &[Ghost], ctx: &mut Ctx) {
    for gh in ghosts {
        let pks = known_pks(&gh.group);
        for r in recs {
            let Rec::HpkeSeal { pk, .. } = r else { continue };
            ctx.eval();
            if pks.contains(pk) {
                ctx.violation_for("C02", "hpke-recipient|key-known-to-removed-member", format!("a commit encrypted a secret to a public key whose private key the removed member {} holds", gh.name));
            }
        }
    }
}

pub fn parse_tree(bytes: &[u8], ctx: &mut Ctx, who: &str) -> Option<Tree> {
    match Tree::parse(bytes) {
        Ok(t) => Some(t),
        Err(e) => {
            ctx.violation_for("C08", "exported-tree-unparseable", format!("reference parser cannot read the tree exported by {who}: {e:?}"));
            None
        }
    }
}

/// C08 (1)+(3): from-scratch tree hash and structural invariants on a member's own copy.
pub fn tree_check(w: &World, p: usize, ctx: &mut Ctx) -> Option<Tree> {
    let g = w.g(p);
    let bytes = tree_bytes(g);
    let who = &w.parties[p].name;
    let t = parse_tree(&bytes, ctx, who)?;
    ctx.eval();
    let suite = w.cfg.suite;
    let h = t.tree_hash(suite);
    if h != g.context().tree_hash {
        ctx.violation_for("C08", "tree-hash-mismatch", format!("{who}: tree hash recomputed from the exported nodes differs from GroupContext.tree_hash at epoch {}", g.current_epoch()));
    }
    if let Err(e) = t.structural_check() {
        let kind = e.split(':').next().unwrap_or("").split(' ').take(4).collect::<Vec<_>>().join("-");
        ctx.violation_for("C08", format!("tree-structure|{kind}"), format!("{who}: {e}"));
    }
    if let Err(e) = t.parent_hashes_valid(suite) {
        ctx.violation_for("C08", "parent-hash-invalid(reference)", format!("{who}: {e}"));
    }
    // roster from the reference parser equals the member's roster
    let ref_roster: Vec<(u32, Vec<u8>)> = t.occupied_leaves().iter().map(|l| (*l, t.leaf(*l).unwrap().identity.clone())).collect();
    let lib_roster: Vec<(u32, Vec<u8>)> = g
        .roster()
        .members()
        .into_iter()
        .map(|m| (m.index, m.signing_identity.credential.as_basic().map(|b| b.identifier.clone()).unwrap_or_default()))
        .collect();
    if ref_roster != lib_roster {
        ctx.violation_for("C08", "roster-differs-from-tree", format!("{who}: roster() differs from the leaves of the exported tree"));
    }
    Some(t)
}

/// C08 (2): a fresh outside observer validates the exported tree + signed GroupInfo.
pub fn observer_validation(w: &World, p: usize, ctx: &mut Ctx) {
    let g = w.g(p);
    let who = &w.parties[p].name;
    ctx.eval();
    let gi = match g.group_info_message(false) {
        Ok(m) => m,
        Err(e) => {
            if err_name(&e) == "CommitRequired" {
                return;
            }
            ctx.violation_for("C08", format!("group-info-failed|{}", err_name(&e)), format!("{who}: cannot produce a GroupInfo: {e:?}"));
            return;
        }
    };
    let ext = ExternalClientBuilder::new()
        // the observer runs on the provider of the member whose copy it validates (RustCrypto does not implement every suite)
        .crypto_provider(DynProvider::new(w.parties[p].which, 999))
        .identity_provider(HIdentity { party: 999 })
        .extension_type(ExtensionType::new(CUSTOM_EXT))
        .custom_proposal_types(Some(ProposalType::new(CUSTOM_PROP)))
        .build();
    match ext.observe_group(gi, Some(g.export_tree()), Some(time(w.clock))) {
        Ok(obs) => {
            ctx.outcome("observer-validation:ok");
            if obs.group_context() != g.context() {
                ctx.violation_for("C08", "observer-context-differs", format!("{who}: observer built from GroupInfo has a different context"));
            }
        }
        Err(e) => ctx.violation_for("C08", format!("observer-rejects-tree|{}", err_name(&e)), format!("{who}: a fresh observer rejects the exported tree/GroupInfo at epoch {}: {e:?}", g.current_epoch())),
    }
}

pub fn cs_of(w: &World, p: usize) -> crate::providers::DynCs {
    DynProvider::new(w.parties[p].which, 998).cipher_suite_provider(CipherSuite::new(w.cfg.suite)).expect("MACHINERY: suite")
}

/// C09: stored private keys match the tree.
pub fn privkey_check(w: &World, p: usize, t: &Tree, ctx: &mut Ctx) {
    let g = w.g(p);
    let who = &w.parties[p].name;
    let (leaf, keys) = g.verif_private_keys();
    let cs = cs_of(w, p);
    let n = t.n_leaves();
    let dp = tm::direct_path(2 * leaf, n);
    if keys.len() > dp.len() + 1 {
        // longer vector is fine only if the surplus is empty
        if keys[dp.len() + 1..].iter().any(|k| k.is_some()) {
            ctx.violation_for("C09", "key-beyond-root", format!("{who}: private key stored beyond the root position"));
        }
    }
    for (i, k) in keys.iter().enumerate().take(dp.len() + 1) {
        let node_idx = if i == 0 { 2 * leaf } else { dp[i - 1] };
        let node = t.node(node_idx);
        ctx.eval();
        match (k, node) {
            (Some(_), None) => ctx.violation_for("C09", "key-for-blank-node", format!("{who} (leaf {leaf}) stores a private key for blank node {node_idx}")),
            (Some(sk), Some(nd)) => {
                let pk = mls_rs_core::crypto::HpkePublicKey::from(nd.key().to_vec());
                let sk = mls_rs_core::crypto::HpkeSecretKey::from(sk.clone());
                let ok = cs
                    .hpke_seal(&pk, b"verif", None, b"probe")
                    .ok()
                    .and_then(|ct| cs.hpke_open(&ct, &sk, &pk, b"verif", None).ok())
                    .map(|pt| &pt[..] == b"probe")
                    .unwrap_or(false);
                if ok {
                    ctx.outcome("privkey:opens");
                } else {
                    ctx.violation_for("C09", if i == 0 { "leaf-key-mismatch" } else { "path-key-mismatch" }, format!("{who} (leaf {leaf}): stored private key at position {i} does not open what is sealed to node {node_idx}'s public key"));
                }
            }
            (None, Some(_)) => {
                if i == 0 {
                    ctx.violation_for("C09", "no-leaf-key", format!("{who}: no private key for own leaf"));
                } else {
                    ctx.outcome("privkey:unknown-nonblank(ok)");
                }
            }
            (None, None) => ctx.outcome("privkey:blank-none"),
        }
    }
}

/// C09: after a commit with path every non-blank node on the committer's direct path (and its
/// leaf) carries a key absent from the previous tree.
pub fn fresh_path_check(committer_leaf: u32, prev_tree_bytes: &[u8], t: &Tree, ctx: &mut Ctx) {
    let n = t.n_leaves();
    let mut nodes = vec![2 * committer_leaf];
    nodes.extend(tm::direct_path(2 * committer_leaf, n));
    for x in nodes {
        if let Some(nd) = t.node(x) {
            ctx.eval();
            let k = nd.key();
            if prev_tree_bytes.windows(k.len()).any(|wd| wd == k) {
                ctx.violation_for("C09", "path-key-not-fresh", format!("after a commit with path, node {x} on the committer's direct path still carries a public key of the previous epoch"));
            } else {
                ctx.outcome("path-key:fresh");
            }
        }
    }
}

/// Shape of the world with key material abstracted (state counting only).
pub fn world_shape(w: &World) -> u64 {
    let mut v = vec![];
    for p in 0..w.parties.len() {
        match &w.parties[p].group {
            None => v.push(0),
            Some(g) => {
                v.push(1);
                v.extend(g.current_epoch().to_be_bytes());
                v.extend(g.current_member_index().to_be_bytes());
                v.push(g.has_pending_commit() as u8);
                v.push(g.get_cached_proposals().len() as u8);
                if let Ok(t) = Tree::parse(&tree_bytes(g)) {
                    v.extend(t.skeleton());
                }
                v.extend(g.context().extensions.mls_encode_to_vec().unwrap_or_default());
            }
        }
    }
    v.push(w.ghosts.len() as u8);
    crate::engine::fnv(&v)
}

pub fn msg_bytes(m: &MlsMessage) -> Vec<u8> {
    m.to_bytes().expect("MACHINERY: message encode")
}
