//! mlsmc <ID> <quick|thorough>            parent: spawns workers, merges, writes evidence
//! mlsmc <ID> <tier> --shard i/n --out F  worker
//! mlsmc <ID> replay <file>               replays a violation artefact

mod alloc_count;
mod checks;
mod corpus;
mod engine;
mod oracles;
mod providers;
mod reference;
mod stateq;
mod stores;
mod world;

use std::collections::BTreeSet;
use std::io::Write;
use std::process::{Command, Stdio};
use std::time::Instant;

use serde_json::{json, Value};

use engine::{Ctx, Report};

#[global_allocator]
static ALLOC: alloc_count::Counting = alloc_count::Counting;

fn root() -> String {
    std::env::var("VERIF_ROOT").unwrap_or_else(|_| "/verif".into())
}

fn seed() -> u64 {
    std::env::var("VERIF_SEED").ok().and_then(|s| s.parse().ok()).unwrap_or(0)
}

fn main() {
    engine::install_panic_hook();
    let args: Vec<String> = std::env::args().collect();
    if args.len() < 3 {
        eprintln!("usage: mlsmc <ID> <quick|thorough|replay PATH> [--shard i/n --out FILE]");
        std::process::exit(2);
    }
    let id = args[1].clone();
    let mode = args[2].clone();
    if mode == "replay" {
        replay(&id, &args[3]);
        return;
    }
    if let Some(pos) = args.iter().position(|a| a == "--shard") {
        let sh: Vec<usize> = args[pos + 1].split('/').map(|x| x.parse().unwrap()).collect();
        let out = args[args.iter().position(|a| a == "--out").unwrap() + 1].clone();
        worker(&id, &mode, (sh[0], sh[1]), &out);
        return;
    }
    parent(&id, &mode);
}

fn worker(id: &str, tier: &str, shard: (usize, usize), out: &str) {
    let mut ctx = Ctx::new(id, tier, shard, seed());
    // a panic inside mls-rs that no check caught closer to its origin is still a violation of
    // the property being checked (all of them demand "an error, never a panic"); a panic in
    // harness code is a machinery error
    let r = std::panic::catch_unwind(std::panic::AssertUnwindSafe(|| checks::run(id, &mut ctx)));
    if r.is_err() {
        let (loc, msg, lib) = engine::take_panic();
        if lib {
            ctx.violation(format!("panic|{loc}"), format!("library panicked: {msg}"));
            ctx.note("a shard stopped early because of a library panic");
        } else {
            engine::machinery(&format!("harness panic at {loc}: {msg}"));
        }
    }
    std::fs::write(out, serde_json::to_vec(&ctx.report.to_json()).unwrap()).expect("MACHINERY: write shard report");
}

fn replay(id: &str, file: &str) {
    let v: Value = serde_json::from_slice(&std::fs::read(file).expect("MACHINERY: read replay file")).expect("MACHINERY: parse replay file");
    let path: Vec<usize> = v["path"].as_array().unwrap().iter().map(|x| x.as_u64().unwrap() as usize).collect();
    let tier = v["tier"].as_str().unwrap_or("quick").to_string();
    *engine::REPLAY_TRAIL.lock().unwrap() = v["trail"].as_array().into_iter().flatten().filter_map(|t| t.as_str().map(|s| s.to_string())).collect();
    let mut ctx = Ctx::new(id, &tier, (0, 1), seed());
    println!("replaying {} ({}), expected signature: {}", file, tier, v["signature"]);
    checks::replay(id, &mut ctx, &path);
    let want = v["signature"].as_str().unwrap_or("");
    let hit = ctx.report.violations.iter().any(|x| x.signature == want);
    for x in &ctx.report.violations {
        println!("violation: {} | {}", x.signature, x.detail);
    }
    if hit {
        println!("VIOLATION property={id} replay={file}");
        std::process::exit(1);
    }
    println!("replay did not reproduce the recorded violation");
}

fn parent(id: &str, tier: &str) {
    let Some(meta) = checks::meta(id, tier) else { engine::machinery("unknown property") };
    let t0 = Instant::now();
    let root = root();
    let n = std::env::var("VERIF_WORKERS").ok().and_then(|s| s.parse().ok()).unwrap_or(meta.workers).max(1);
    let dir = format!("{root}/target/shards/{id}-{tier}");
    let _ = std::fs::remove_dir_all(&dir);
    std::fs::create_dir_all(&dir).expect("MACHINERY: shard dir");
    let exe = std::env::current_exe().unwrap();
    let mut kids = vec![];
    for i in 0..n {
        let out = format!("{dir}/{i}.json");
        let child = Command::new(&exe)
            .args([id, tier, "--shard", &format!("{i}/{n}"), "--out", &out])
            .env("RAYON_NUM_THREADS", "1")
            .stdout(Stdio::inherit())
            .stderr(Stdio::inherit())
            .spawn()
            .expect("MACHINERY: spawn worker");
        kids.push((i, out, child));
    }
    let mut rep = Report::default();
    let mut machinery_fail = false;
    for (i, out, mut child) in kids {
        let st = child.wait().expect("MACHINERY: wait");
        if !st.success() {
            eprintln!("worker {i} exited with {st:?}");
            machinery_fail = true;
            continue;
        }
        match std::fs::read(&out).ok().and_then(|b| serde_json::from_slice::<Value>(&b).ok()) {
            Some(v) => rep.merge_json(&v),
            None => {
                eprintln!("worker {i} left no report");
                machinery_fail = true;
            }
        }
    }
    if machinery_fail {
        eprintln!("MACHINERY ERROR: a worker process failed; no verdict");
        std::process::exit(2);
    }
    // known findings
    let kf: Value = std::fs::read(format!("{root}/known-findings.json")).ok().and_then(|b| serde_json::from_slice(&b).ok()).unwrap_or(json!({"findings": []}));
    let known: Vec<(String, String, String)> = kf["findings"]
        .as_array()
        .into_iter()
        .flatten()
        .map(|f| (f["property"].as_str().unwrap_or("").to_string(), f["signature"].as_str().unwrap_or("").to_string(), f["what"].as_str().unwrap_or("").to_string()))
        .collect();
    let mut seen = BTreeSet::new();
    let mut unknown = vec![];
    let mut known_seen = vec![];
    for v in &rep.violations {
        if !seen.insert((v.property.clone(), v.signature.clone())) {
            continue;
        }
        if let Some(k) = known.iter().find(|k| k.0 == v.property && k.1 == v.signature) {
            println!("KNOWN-FINDING: property={} {} [{}]", v.property, k.2, v.signature);
            known_seen.push(v.signature.clone());
        } else {
            unknown.push(v.clone());
        }
    }
    let mut exit = 0;
    for v in &unknown {
        let h = engine::fnv(format!("{}|{}", v.property, v.signature).as_bytes());
        let rdir = format!("{root}/replays/{}", v.property);
        std::fs::create_dir_all(&rdir).ok();
        let path = format!("{rdir}/{h:016x}.json");
        let body = json!({"property": v.property, "signature": v.signature, "detail": v.detail, "trail": v.trail, "path": v.path, "tier": tier,
            "replay_cmd": format!("bin/check {} replay {}", v.property, path)});
        std::fs::write(&path, serde_json::to_vec_pretty(&body).unwrap()).ok();
        println!("VIOLATION property={} replay={}", v.property, path);
        println!("  signature: {}\n  detail: {}\n  trail: {:?}", v.signature, v.detail, v.trail);
        exit = 1;
    }
    // vacuity
    let mut vacuous = vec![];
    for g in &meta.required_goals {
        if rep.goals.get(*g).copied().unwrap_or(0) == 0 {
            vacuous.push(g.to_string());
        }
    }
    let distinct = rep.outcomes.len();
    let wall = t0.elapsed().as_secs_f64();
    let states = (rep.shapes.len() as u64).max(rep.extra.get("states").copied().unwrap_or(0));
    let evidence = json!({
        "property_id": id,
        "tier": tier,
        "seed": seed(),
        "level": meta.level,
        "wall_s": wall,
        "violations": unknown.len(),
        "assumptions": meta.assumptions,
        "coverage": {
            "states": states.max(rep.extra.get("states").copied().unwrap_or(0)),
            "transitions": rep.transitions,
            "traces_validated_against_impl": rep.traces,
            "samples": rep.samples,
            "evaluations": rep.evaluations,
            "distinct_nontrivial": distinct.max(states as usize),
            "distinct_oracle_outcomes": rep.outcomes,
            "rule": meta.rule,
            "exhaustive": !rep.cap_hit,
            "cap_hit": rep.cap_hit,
            "max_depth_reached": rep.max_depth,
            "bounds": meta.bounds,
            "goals": rep.goals,
            "counters": rep.extra,
            "known_findings_seen": known_seen,
            "notes": rep.notes,
            "workers": n,
            "sampled_parts": match rep.extra.get("sampled_nodes") {
                Some(n) => json!(format!("{n} interior nodes of trees with 2^13..2^24 leaves were drawn with VERIF_SEED; that part is sampling and is not part of the exhaustive coverage statement")),
                None => Value::Null,
            },
        }
    });
    std::fs::create_dir_all(format!("{root}/evidence")).ok();
    let mut f = std::fs::File::create(format!("{root}/evidence/{id}.json")).expect("MACHINERY: evidence file");
    f.write_all(&serde_json::to_vec_pretty(&evidence).unwrap()).unwrap();
    // a per-tier copy, so that a quick run does not erase what the last thorough run covered
    std::fs::create_dir_all(format!("{root}/evidence/by-tier")).ok();
    if let Ok(mut f) = std::fs::File::create(format!("{root}/evidence/by-tier/{id}.{tier}.json")) {
        let _ = f.write_all(&serde_json::to_vec_pretty(&evidence).unwrap());
    }
    println!(
        "{id} {tier}: states={} transitions={} traces={} evaluations={} outcomes={} goals={:?} wall={:.1}s cap_hit={}",
        states, rep.transitions, rep.traces, rep.evaluations, distinct, rep.goals, wall, rep.cap_hit
    );
    for (k, n) in &rep.outcomes {
        println!("  outcome {k}: {n}");
    }
    for nt in &rep.notes {
        println!("  note: {nt}");
    }
    if exit == 0 && !vacuous.is_empty() {
        eprintln!("MACHINERY ERROR: vacuous run, reachability goals never hit: {vacuous:?}");
        std::process::exit(2);
    }
    if exit == 0 && distinct < meta.min_outcomes {
        eprintln!("MACHINERY ERROR: vacuous run, only {distinct} distinct oracle outcomes");
        std::process::exit(2);
    }
    std::process::exit(exit);
}
